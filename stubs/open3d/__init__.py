"""Minimal stand-in for open3d (native lib cannot load here: libusb missing)."""
import types, sys
class _Meta(type):
    def __getattr__(cls, name):
        if name.startswith("__"):
            raise AttributeError(name)
        return cls
class _Any(metaclass=_Meta):
    def __init__(self, *a, **k): pass
    def __call__(self, *a, **k): return _Any()
    def __getattr__(self, name):
        if name.startswith("__"):
            raise AttributeError(name)
        return _Any()
    def __iter__(self): return iter(())
    def __len__(self): return 0
def _mod(name):
    m = types.ModuleType(name)
    m.__getattr__ = lambda attr: _Any
    sys.modules[name] = m
    return m
for n in ("geometry", "utility", "visualization", "io"):
    globals()[n] = _mod("open3d." + n)
def __getattr__(name):
    if name.startswith("__"):
        raise AttributeError(name)
    return _Any
