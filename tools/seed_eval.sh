#!/bin/bash
# usage: tools/seed_eval.sh <seed-dir with patch.diff and demo.py> <Cxx> [Cxx...]
# 1. confirms in a scratch worktree that the patch applies, the 62 pinned tests still pass, and the demo
#    fails with / passes without the change; 2. runs the given quick checks against /repo with the patch applied.
set -u
D="$(realpath "$1")"; shift
WT=/tmp/wt-eval-$$
git -C /repo worktree add -q --detach "$WT" HEAD || exit 2
cleanup() { git -C /repo worktree remove --force "$WT" 2>/dev/null; rm -rf "$WT"; }
trap cleanup EXIT
export PYTHONPATH="$WT:/tmp/stubs" NUMBA_CACHE_DIR="$WT/.nbcache"
cd "$WT"
timeout 1200 /venv/bin/python -W ignore "$D/demo.py" >/tmp/seed_demo_clean.log 2>&1; rc_clean=$?
git apply "$D/patch.diff" || { echo "PATCH DOES NOT APPLY"; exit 2; }
rm -rf "$WT/.nbcache"
timeout 1200 /venv/bin/python -W ignore "$D/demo.py" >/tmp/seed_demo_mut.log 2>&1; rc_mut=$?
echo "demo: clean rc=$rc_clean mutated rc=$rc_mut"
/venv/bin/python -m pytest -q -p no:cacheprovider --timeout=900 --continue-on-collection-errors --junitxml=/tmp/seed_junit.xml >/dev/null 2>&1
python3 - <<'PY'
import json, xml.etree.ElementTree as ET
b=json.load(open('/root/.vp/BASELINE.json'))
ok=set()
for tc in ET.parse('/tmp/seed_junit.xml').iter('testcase'):
    if not any(c.tag in('failure','error','skipped') for c in tc):
        ok.add(tc.get('classname')+'::'+tc.get('name'))
missing=[s for s in b['stable_pass'] if s not in ok]
print("pinned tests with change: %d passed, stable missing: %s" % (len(ok), missing))
PY
cd /verif
unset PYTHONPATH NUMBA_CACHE_DIR
cleanup
trap - EXIT
if [ $# -gt 0 ]; then tools/mutcheck.sh "$D/patch.diff" "$@"; fi
