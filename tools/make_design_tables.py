#!/usr/bin/env python3
"""Rewrites the generated tables of DESIGN.md (between the BEGIN/END GENERATED markers) from
known_findings.json and seeded/*/meta.json."""
import glob, json, os, re
ROOT = os.path.dirname(os.path.dirname(os.path.abspath(__file__)))
kf = json.load(open(os.path.join(ROOT, "known_findings.json")))["findings"]
out = []
out.append("### 8.3 Known findings (genuine defects recorded, not repaired) - from known_findings.json\n")
out.append("| id | property | mechanism key | magnitude bound | what fails |")
out.append("|----|----------|---------------|-----------------|-----------|")
for e in kf:
    if e["status"] != "known":
        continue
    key = "; ".join("%s=%s" % (k, "|".join(map(str, v)) if isinstance(v, list) else v) for k, v in e["key"].items())
    out.append("| %s | %s | %s | %s | %s |" % (e["id"], e["property"], key, e.get("max_err", "-"), e["what"].replace("|", "/")))
out.append("\n### 8.4 Defects repaired in /repo ('fix:' commits) - from known_findings.json\n")
out.append("| id | property | commit | what failed | witness |")
out.append("|----|----------|--------|-------------|---------|")
for e in kf:
    if e["status"] != "fixed":
        continue
    out.append("| %s | %s | %s | %s | %s |" % (e["id"], e["property"], e["commit"], e["what"].replace("|", "/"), e.get("witness", "")))
out.append("\n### 8.5 Seeded changes (independent sub-agents) and the checks that catch them - from seeded/*/meta.json\n")
out.append("| seed | breaks | detected by | needs to manifest | history of detection |")
out.append("|------|--------|-------------|-------------------|----------------------|")
for f in sorted(glob.glob(os.path.join(ROOT, "seeded", "*", "meta.json"))):
    m = json.load(open(f))
    out.append("| %s | %s | %s | %s | %s |" % (m["id"], m["breaks_property"], ", ".join(m["detected_by"]) or "(none)",
                                            m["needs_to_manifest"].replace("|", "/"), m["status"].replace("|", "/")))
txt = "\n".join(out) + "\n"
p = os.path.join(ROOT, "DESIGN.md")
s = open(p).read()
b, e = "<!-- BEGIN GENERATED -->", "<!-- END GENERATED -->"
if b in s:
    s = s[:s.index(b) + len(b)] + "\n" + txt + s[s.index(e):]
else:
    s += "\n" + b + "\n" + txt + e + "\n"
open(p, "w").write(s)
print("tables written:", len(out), "lines")
