#!/bin/bash
# usage: tools/mutcheck.sh <patch-file|revert:<commit>> <Cxx> [Cxx ...]
# Applies a change to /repo's working tree, runs the quick checks, and always restores the tree.
set -u
P="$1"; shift
cd /repo || exit 2
if [ -n "$(git status --porcelain --untracked-files=no)" ]; then echo "repo dirty, refusing"; exit 2; fi
trap 'git -C /repo checkout -q -- . ' EXIT
if [[ "$P" == revert:* ]]; then
  c="${P#revert:}"
  git diff "$c" "$c~1" | git apply || { echo "cannot revert $c"; exit 2; }
else
  git apply "$P" || { echo "cannot apply $P"; exit 2; }
fi
cd /verif
for c in "$@"; do
  out=$(VERIF_EVIDENCE_DIR=/tmp/mut-evidence /venv/bin/python run_check.py "$c" --tier "${TIER:-quick}" 2>&1); rc=$?
  nv=$(echo "$out" | grep -c '^VIOLATION')
  echo "== $c rc=$rc violations_printed=$nv"
  echo "$out" | grep '^VIOLATION' | head -${SHOW:-3} | cut -c1-${WIDTH:-260}
  echo "$out" | tail -1 | cut -c1-300
done
