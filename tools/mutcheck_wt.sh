#!/bin/bash
# usage: tools/mutcheck_wt.sh <patch-file> <Cxx> [Cxx ...]
# Like mutcheck.sh, but leaves /repo alone: the change is applied to a scratch worktree of /repo's HEAD and the
# quick checks run against it through VERIF_REPO (for use while a background sweep reads /repo itself).
set -u
P="$(realpath "$1")"; shift
WT=/tmp/wt-mut-$$
git -C /repo worktree add -q --detach "$WT" HEAD || exit 2
trap 'git -C /repo worktree remove --force "$WT" 2>/dev/null; rm -rf "$WT"' EXIT
git -C "$WT" apply "$P" || { echo "cannot apply $P"; exit 2; }
cd /verif
for c in "$@"; do
  out=$(VERIF_REPO="$WT" VERIF_EVIDENCE_DIR=/tmp/mut-evidence-$$ /venv/bin/python run_check.py "$c" --tier "${TIER:-quick}" 2>&1); rc=$?
  nv=$(echo "$out" | grep -c '^VIOLATION')
  echo "== $c rc=$rc violations_printed=$nv"
  echo "$out" | grep '^VIOLATION' | head -${SHOW:-3} | cut -c1-${WIDTH:-260}
  echo "$out" | tail -1 | cut -c1-300
done
rm -rf /tmp/mut-evidence-$$
