#!/bin/bash
# usage: tools/sweep.sh <tier> <seed...>   - runs every check for each seed, prints one line per run
tier="$1"; shift
/venv/bin/python -m verif.setup >/dev/null 2>&1
for s in "$@"; do
  for i in $(seq -w 1 20); do
    c="C$i"
    out=$(VERIF_SEED=$s /venv/bin/python run_check.py $c --tier $tier 2>&1); rc=$?
    echo "seed=$s $c rc=$rc $(echo "$out" | tail -1 | cut -c1-220)"
    if [ $rc -ne 0 ]; then echo "$out" | grep -E "^(VIOLATION|INCONCLUSIVE)" | head -5 | cut -c1-300; fi
  done
done
