"""Per-check metadata for MANIFEST.json (see make_manifest.py)."""


def register(reg0):
    def reg(cid, technique, level, note, ref):
        level = level.replace(*SIZES[cid]) if cid in SIZES else level
        if cid in ADDENDA:
            level = level + " As extended after five rounds of seeded changes: " + ADDENDA[cid][0]
            if ADDENDA[cid][1]:
                note = note + " " + ADDENDA[cid][1]
        reg0(cid, technique, level, note, ref)

    reg("C03",
        "runtime oracle monitor on recorded support queries (history per object) + numba bounds-check sanitizer",
        "Every support_function/first_vertex/center answer of ~3 000 (quick) / 60 000 (thorough) generated colliders is "
        "compared with closed-form membership and support-value oracles; each object is queried with a hostile direction "
        "history (axes, sign boundaries, exact zeros, tilted axes, wide norms, pose update mid-history for meshes). "
        "Held = no answer off by more than 1e-9*L on the executions observed.",
        "Trusted: oracle closed forms (verif/oracles.py), scipy NNLS/Qhull for hull membership. Covers only generated inputs.",
        "DESIGN.md section 4 C03")

    reg("C04",
        "runtime oracle monitor on aabb() outputs (per-axis support values), pair consequence monitor, RigidBody world-frame monitor; bounds-check sanitizer shards",
        "aabb() of every collider type (+Margin), the free containment.*_aabb functions and hydroelastic RigidBody.aabb() are "
        "executed on 5 000 (quick) / 100 000 (thorough) generated shapes (all rotation classes incl. tiny and product rotations) "
        "and compared per axis and side with the oracle's support values (enclosure and tightness, 1e-9*L); pairs with a "
        "certified common point must have overlapping boxes. Known findings K1 (ellipsoid under general rotation) and K2 "
        "(RigidBody.aabb in body frame) are reported as KNOWN-FINDING and keyed by mechanism.",
        "Trusted: oracle support values. Blind spots: ellipsoid boxes under non-axis-aligned rotation (K1), RigidBody.aabb with "
        "non-identity pose (K2, still required to equal the exact body-frame bounds).",
        "DESIGN.md section 4 C04")
    reg("C05",
        "executable-model monitor over insertion/query histories + icontract class invariant on the real AabbTree + crash containment (faulthandler children, bounds-check shards)",
        "2 000 (quick) / 50 000 random + 1 728 exhaustive mode-sequence (thorough) histories of insert_aabb/insert_aabbs "
        "(all modes, with/without payloads, hostile box families incl. touching lattice, zero-volume, nested, duplicate boxes) are "
        "run against the real tree; every box query, tree-vs-tree query (other/self/empty) and root box is compared with a brute "
        "force list model as multisets of (box, payload); a structural class invariant is evaluated after every public call; "
        "segfaults and hangs of the compiled traversals are caught per shard.",
        "Trusted: the 10-line closed-interval overlap model. A hang is declared after 150 s in one history (typical: milliseconds).",
        "DESIGN.md section 4 C05")

    reg("C01",
        "runtime oracle monitor on gjk_distance_jolt results: closed-form membership oracles, exact constructed distances, independent reference solver with two-sided (feasible pair / separating slab) certificate; support-call recording proxies; bounds-check sanitizer shards",
        "30 000 (quick) / 1 500 000 (thorough) ordered collider pairs covering all 100 type pairs (+Margin) in 12 placement "
        "classes (exact gaps from 1e-7 L, exact touching, overlaps, deep/nested/same/copy, lattice, parallel, coplanar, far) are "
        "queried through gjk.gjk / gjk_distance / gjk_distance_jolt; a in A, b in B, |a-b| = d, d within the certified interval, "
        "d == 0 on certified overlap, d > 0 on certified gap, clipping only beyond sqrt(max_distance_squared). Two genuine, "
        "rare numerical defects are keyed as known findings K10 (grazing contact) and K11 (degenerate final simplex).",
        "Trusted: oracle closed forms; the reference interval is sound by construction and self-checked (witness membership). "
        "Blind spots: point accuracy <= 5e-4 L at grazing results (K10); results whose final simplex is affinely degenerate (K11).",
        "DESIGN.md section 4 C01")

    reg("C02",
        "runtime monitor of the five boolean tests against constructed witnesses (separating plane of width >= 1e-3 L / common point at certified depth >= 1e-3 L); exceptions inside the band are recorded",
        "10 000 (quick) / 400 000 (thorough) ordered pairs over all 100 type pairs: every boolean narrow-phase test the types "
        "allow (jolt, libccd, MPR, Nesterov, Nesterov-primitives) and gjk_distance==0 is executed and compared with a truth "
        "that is known by construction (half of the gap cases within a factor 3 of the band edge); inside the band only "
        "'returns a bool, does not raise' is judged.",
        "Trusted: inscribed-ball depths and support-plane gaps from the oracle closed forms; the reference solver's "
        "separating slab (sound lower bound) for lattice/parallel/coplanar scenes.",
        "DESIGN.md section 4 C02")

    reg("C09",
        "runtime oracle monitor on gjk_distance_original / Nesterov GJK (plain and accelerated, generic and primitives variants) against exact constructed distances or the reference interval; mixed specialised/generic support pairs over-weighted",
        "5 000 (quick) / 200 000 (thorough) pairs: original GJK judged for membership, consistency and optimality (1e-3 L); "
        "Nesterov variants judged on max(distance,0) and on the inside flag outside the band, with use_nesterov_acceleration in "
        "{False, True}; public wrappers compared with the core functions. Known findings K7 (iteration cap with acceleration "
        "returns 0) and K7b (ZeroDivisionError in the compiled accelerated loop) are keyed by mechanism.",
        "Trusted: truth as in C01. Blind spot: accelerated runs that hit the iteration cap (K7).",
        "DESIGN.md section 4 C09")
    reg("C19",
        "bounded-progress monitor: support-evaluation counting proxies with a hard budget of 1000, sys.monitoring call counters for the type-dispatching Nesterov code, returned iteration counters, finiteness and exception-type monitors; wall-clock watchdog only as backstop",
        "3 000 (quick) / 100 000 (thorough) hostile scenes (same object twice, copies, nested, lattice, touching, coplanar, "
        "needle/flat aspect ratios to 1e4, zero-volume hulls) x 11 narrow-phase entry points + iteration helpers + "
        "self_collision.detect/detect_any on small BVHs: every call must stay within 1000 support evaluations (proxy raises at "
        "1001), return finite documented outputs, and raise nothing but EPA's capacity assertion with smooth shapes.",
        "Trusted: proxies see every support_function call (jolt/libccd/original/MPR/EPA use only that interface). Finiteness "
        "is judged on documented outputs, not on unused rows of np.empty simplex arrays. Known: K7b, K8, K12.",
        "DESIGN.md section 4 C19")

    reg("C07",
        "runtime oracle monitor on epa() results: exact penetration depth and facets of the Minkowski difference (Qhull) for polytope pairs, direction-sampled upper bound + reference-solver gap certificate for smooth pairs; both simplex windings; recording proxies classify the GJK simplex",
        "4 000 (quick) / 100 000 (thorough) overlapping pairs (depth 1e-4..0.5 of the smaller shape, deep, nested, lattice with "
        "coincident faces, copy, same). On success=True: | |mtv| - depth* | <= 1e-6 L, residual overlap and remaining gap of "
        "A vs B+mtv <= 1e-6 L; polytope pairs must report success. Simplices that are not tetrahedra (GJK stopped with fewer "
        "than four valid points) are the known finding K8.",
        "Trusted: Qhull facet equations; refsolve lower bound. Blind spot: results for non-tetrahedral input simplices (K8, "
        "about 8% of the generated overlaps, mostly same/copy/flat classes).",
        "DESIGN.md section 4 C07")
    reg("C08",
        "runtime oracle monitor on mpr_penetration results: exact facets for polytope pairs, common-ball certificates for smooth pairs, closed-form membership of the contact position",
        "4 000 (quick) / 100 000 (thorough) overlapping pairs incl. concentric/nested (ORIGIN_ON_V1 / V0V1 special cases), "
        "lattice and same/copy placements. Judged when an intersection is reported: depth >= 0, unit (or zero at touching) "
        "direction, residual overlap after translating by depth*direction <= 2e-3 L, depth >= depth* - 2e-3 L, contact position "
        "within 2e-3 L of both colliders; clear overlaps must be reported. Known finding K14 (contact position for "
        "penetrations deeper than a collider's smallest extent).",
        "Trusted: Qhull facets, inscribed-ball depth bounds. For smooth shapes a residual overlap is only reported with a "
        "certificate (sound, not complete). Blind spot: contact position when depth >= smallest extent (K14).",
        "DESIGN.md section 4 C08")

    reg("C13",
        "runtime oracle monitor on the eight points_in_* predicates (certified depth / exact distance), batch-independence monitor (permuted and split batches), cross monitors against point_to_* distances and collider support values",
        "2 400 (quick) / 40 000 (thorough) shapes x 300-point batches generated from the shape itself (boundary +- 1e-6, "
        "apex/rim/corner neighbourhoods, axis points): ~600 000 judged points per quick run; True required at depth >= 1e-9 L, "
        "False at distance >= 1e-9 L, identical answers for permuted/split batches; agreement with point_to_box/disk/cylinder/"
        "ellipsoid and with the collider support value outside the band.",
        "Trusted: oracle depth (certified lower bound) and distance closed forms. The disk's True side is judged only for "
        "exactly representable in-plane points.",
        "DESIGN.md section 4 C13")
    reg("C18",
        "runtime oracle monitor with an exact rational (fractions.Fraction) min-norm oracle over exhaustively enumerated lattice configurations plus random real configurations",
        "All 1-3 point configurations over {-1,0,1}^3 (20 439) in every run; 4-point configurations: 60 000 sampled (quick) / "
        "all 531 441 (thorough), {-2..2}^3 sampled 200 000 (thorough); 12 000 / 100 000 random real configurations (aspect "
        "ratios over 12 orders, near-dependent, duplicates). Both the Jolt solver and the original backup procedure must return "
        "the exact minimum norm (1e-9 of the configuration size), a subset whose hull contains the point, and convex weights "
        "that reproduce it. Known: K15 (absolute thresholds below unit scale), K16 (aspect ratio >= 100).",
        "Trusted: exact rational arithmetic. Blind spots: configurations with all points within 0.1 of the origin (K15) and "
        "aspect ratio >= 100 (K16) are only checked up to the recorded magnitude.",
        "DESIGN.md section 4 C18")

    reg("C14",
        "executable-model monitor over update_pose/query histories: a freshly constructed collider at the current pose is the model; poses handed over as fresh arrays, stack slices and TransformManager results",
        "1 200 (quick) / 24 000 (thorough) histories of 1-10 poses on the 9 collider types with update_pose (+Margin): after "
        "every update 6 support queries, aabb, center, first_vertex, collider2origin and gjk / gjk_intersection / "
        "mpr_intersection against a probe are compared with a new collider built at that pose (1e-9 L); any exception of the "
        "long-lived object is a violation.",
        "Trusted: the constructors themselves (their correctness is C03/C04's subject). Mesh support points are compared by "
        "projection (ties).",
        "DESIGN.md section 4 C14")

    reg("C06",
        "executable-model monitor over histories of joint/pose changes on generated URDF robots: pose model (transform manager), brute-force AABB overlap model, brute-force narrow-phase matrix with must/may sets for self collision",
        "400 (quick) / 6 000 (thorough) generated robots (chains and branching trees with shuffled declaration order, "
        "sphere/box/cylinder geometry from URDF, capsule/cone/mesh colliders attached via add_collider, asymmetric generated and "
        "user-edited whitelists) x 3-20 steps of set_joint/add_transform + update_collider_poses: every collider pose equals "
        "the transform manager, the three broad-phase queries equal the all-pairs closed-interval test on current aabb()s "
        "(incl. empty and second BVH), detect marks must <= marked <= may and detect_any == exists must.",
        "Trusted: pytransform3d's transform manager as pose model; the library's gjk_intersection as narrow phase of the "
        "brute-force matrix (C02 covers it). Flat (zero-thickness) colliders are outside C06's quantifier (C05 covers the tree).",
        "DESIGN.md section 4 C06")
    reg("C10",
        "runtime oracle monitor on all 34 functions of distance3d.distance (export list read from the module): independent point-to-primitive distances judge membership of the returned points, consistency and the d = 0 clause; exceptions and NaN are violations",
        "14 000 (quick) / 350 000 (thorough) calls, 400 / 10 000 per function: primitives generated in a shared frame on a "
        "half-size lattice (exactly parallel, perpendicular, coplanar, touching, contained, coincident placements), positions "
        "just off degenerate ones (1e-10..1e-2), sliver triangles, contact/piercing class. Judged: finite d >= 0, both points on "
        "their primitives (1e-9 L), | |p1-p2| - d | <= 1e-6 L, d == 0 => same point. Known: K4 (disk_to_disk), K5 "
        "(point_to_circle near the axis), K6 (ellipsoid surface from inside), K17 (epsilon band accuracy).",
        "Trusted: closed-form / NNLS point distances in verif/prims.py. Return order (d, point on first, point on second) as "
        "documented.",
        "DESIGN.md section 4 C10")
    reg("C11",
        "runtime oracle monitor on the returned distances against reference minima: closed forms, support values, 1-D ternary search of exact point distances, feasible pairs of the reference solver, exhaustive circle sampling with golden-section refinement",
        "same workload as C10; a violation is a returned d that exceeds a distance attained by an explicit pair of points by "
        "more than 1e-6 L (5e-3 L for line_to_circle). Inputs inside the documented epsilon band (|cos| or |sin| of "
        "characteristic directions in (0,1e-2)) are executed but not judged. Known: K3 (line_segment_to_circle end-point "
        "clamp), K4 (disk_to_disk heuristic), K5, K6, K18 (sliver triangles).",
        "Trusted: reference values in verif/prims.py:reference (each is attained by a feasible pair or is a closed form, so "
        "'d above the reference' is sound).",
        "DESIGN.md section 4 C11")

    reg("C17",
        "runtime structural monitor on the tetrahedral mesh factories: positive volumes, volume conservation against the convex hull (exact product for boxes), conforming face pairing, point-coverage sampling, analytic-shape membership, potential values, helper functions vs direct numpy, centre of mass through an express_in history",
        "330 (quick) / 5 000 (thorough) factory calls over sizes in [1e-2,1e2], the long/medium/short cylinder classes incl. "
        "length = 2r +- ulp / +-1e-13, boxes with equal sides +- ulp, cubes, subdivision orders 0-3(4), resolution hints 10r..r/30; "
        "~150 000 tetrahedra and ~26 000 coverage points per quick run; every third case goes through RigidBody.make_* and the "
        "history com -> express_in -> com / tetrahedra_points.",
        "Trusted: Qhull hull volume and facets; analytic oracles. Face pairing merges exactly equal vertices only.",
        "DESIGN.md section 4 C17")

    reg("C15",
        "runtime geometric monitor on ContactSurface / intersect_tetrahedron_pair outputs with own barycentric coordinates, plane residuals, convexity and area recomputation; role-changing query histories; single tetrahedron pairs in both argument orders with exactly computed transforms",
        "400 (quick) / 6 000 (thorough) body pairs from the six factories (general poses, axis-aligned lattice stacking, "
        "certified disjoint) with Young's moduli over [1e-2,1e2]: ~50 000 polygons per quick run judged (vertices on the plane "
        "and inside both tetrahedra, convex, area and force consistent), five further queries per scene with a third body in "
        "changing roles; 8 000 single tetrahedron pairs (random, dyadic, 'pressed flat surfaces' with exactly parallel faces and "
        "general linear potentials) in both orders. Known: K9 ('same tetrahedron' shortcut point polygons).",
        "Trusted: numpy linear solves for barycentric coordinates. Blind spot: point polygons of the `same` shortcut (K9).",
        "DESIGN.md section 4 C15")

    reg("C16",
        "metamorphic runtime monitor on contact_forces (action-reaction, argument swap, common rigid motion, repeat, interleaved role-changing history) and set-equality monitor tree-based vs brute-force broad phase",
        "432 (quick) / 7 200 (thorough) overlapping body pairs over all 36 factory kind pairs, both bodies generally rotated "
        "(also equal orientations and axis-aligned stacking), Young's moduli in [1e-2,1e2]: 8 force relations per pair judged "
        "at 5% of |f| with unchanged intersection flag; find_contact_surface(use_aabb_trees=True) must report exactly the "
        "brute-force set of intersecting tetrahedron pairs, also when repeated on re-expressed bodies. Known: K19 (frame "
        "dependence of the narrow phase for axis-aligned stacking, 5-10%).",
        "Trusted: nothing external; relations compare the library with itself on transformed scenes (bodies rebuilt from "
        "parameters). Only the force part of the wrenches is judged, as the property states.",
        "DESIGN.md section 4 C16")

    reg("C12",
        "metamorphic runtime monitor: every base scene is executed again with swapped arguments, under a common rigid motion and uniformly scaled (shapes rebuilt from parameters); scalars, booleans and unique closest points are compared",
        "6 000 (quick) / 100 000 (thorough) base scenes (70% collider pairs over all type pairs and 8 placement classes, 30% "
        "primitive scenes of C10) x 3 variants: ~45 000 scalar comparisons (gjk / original / Nesterov distances, mpr depth, "
        "EPA |mtv|, 31 primitive functions), ~14 000 boolean comparisons outside the band, closest points where the optimum is "
        "unique. Known: K20 (MPR depth is frame / order dependent for deep penetrations).",
        "Trusted: nothing external (self-consistency). Mechanisms of base-property known findings are excluded by the same "
        "predicates.",
        "DESIGN.md section 4 C12")

    reg("C20",
        "differential execution monitor: one deterministic call list executed in three interpreter processes per shard (numba JIT as installed, NUMBA_DISABLE_JIT=1, JIT + NUMBA_BOUNDSCHECK=1 bounds sanitizer); per-call records (value / exception type) compared call by call",
        "9 000 (quick) / 180 000 (thorough) calls over 10 families (34 distance functions on structured/contact/on-axis scenes, "
        "collider support/AABB incl. update_pose paths, GJK flavours, MPR, EPA, AABB tree histories incl. empty trees, "
        "tetrahedron / half-plane intersection, contact_forces, utils, simplex solvers): exception types must be identical, "
        "discrete results identical away from decision boundaries, floats within 1e-9 relative (closed forms) or the "
        "solver accuracy of C01/C07-C09; an IndexError that appears only under the bounds sanitizer, or a crash of a worker, is "
        "an out-of-bounds access of compiled code. Known: K21 (sqrt amplification in line_to_box at contact).",
        "Trusted: numba's NUMBA_BOUNDSCHECK instrumentation. Closest points are compared only where the optimum is unique; "
        "contact_forces at the 5% noise level of C16; MPR depth only in generic placements (ties).",
        "DESIGN.md section 4 C20")


# quick-tier sizes that changed after the table above was written
SIZES = {
    "C09": ("5 000 (quick)", "10 000 (quick)"),
    "C10": ("14 000 (quick)", "35 000 (quick)"),
    "C11": ("14 000 (quick)", "35 000 (quick)"),
}

# what each check gained later (DESIGN.md 8.2) and the known findings keyed since
ADDENDA = {
    "C01": ("placement class 'axial'; 20% of the colliders reach their pose through update_pose (fresh array / stack slice / buffer "
            "overwritten in place); meshes with mixed triangle winding; L without the distance from the origin.",
            "Further rare findings of the thorough tier: K29 (tiny positive d on shallow overlaps), K30 (flat shapes), K33 (needle hull vs copy)."),
    "C02": ("L without the distance from the origin; K22 keyed by the rebuilt first simplex edge of libccd.", ""),
    "C03": ("mesh triangles also with Qhull's raw / flipped winding; pose updates mid-history for every updatable type through fresh "
            "array, stack slice or in-place buffer; directions normal to mesh faces; a query that does not return within the CPU "
            "budget is a violation.", "K31: mesh support for directions of norm 1e-8."),
    "C04": ("aabb() is judged again after update_pose (fresh / stack / in-place buffer, small and large motions).", ""),
    "C05": ("batches of other dtypes (int64 / int32 / float32 after float64 batches).", ""),
    "C06": ("frames hanging directly on 'origin' and moved by overwriting one pose array in place, replacement of the collider of an "
            "existing frame, asymmetric whitelists, moving base frame; support points of every collider are compared with a fresh "
            "collider of the same parameters at the transform manager's pose after every step.", ""),
    "C07": ("L without the distance from the origin.", ""),
    "C08": ("L exactly as the property defines it (the distance from the origin only as 1e-9 rounding allowance); every 10th case a "
            "pair touching exactly on the line through its centres (ORIGIN_ON_V1), both argument orders.", ""),
    "C09": ("half of the primitive-only cases in the 'axial' / lattice classes; L without the distance from the origin.",
            "K24 (original GJK returns 0 through its tetrahedron exit), K27 (accelerated run ends on a degenerate simplex), K28 (shapes below 0.1)."),
    "C10": ("grazing class (a primitive passing 1e-9..1e-4 of the size outside a polygon edge), on-axis and small-scale scenes; class "
            "'just outside the epsilon band' (line/segment pairs with sine 0.0105..0.08, lengths 0.2..0.6, crossing in projection).",
            "K25 was repaired (D20)."),
    "C11": ("same scene classes as C10.", ""),
    "C12": ("all 35 primitive functions are visited (the first version reached 15); returned points of primitive functions are compared "
            "where the optimum is unique; variant 'moved-by-update' applies the motion with update_pose to the objects that answered "
            "the base queries; scaled primitive scenes keep every feature inside [0.2, 1e2].", "K11, K24, K27 consequences keyed."),
    "C13": ("batches of a single point judged against the oracle's truth.", ""),
    "C14": ("caller-array monitor: constructor arrays kept by the caller and shared with a sibling collider, and pose stacks, must not "
            "change.", ""),
    "C15": ("nearly parallel faces (tilt 1e-7..1e-3 rad); the world-frame summary of contact_forces(..., return_details=True) is judged "
            "like the body-frame surface; an order-dependent intersection flag counts only when the reported polygon has area (or is a K9 "
            "point polygon): tetrahedra touching along a segment may be reported either way.", ""),
    "C16": ("torques follow the same relations as the forces (scale |f| x body size); body 2 moved by editing its pose in place "
            "between two queries; return_details relation; state-based comparison of the tree broad phase with brute force.",
            "K32: coarse contacts (<= 20 polygons) exceed the 5 % noise level under re-expression."),
    "C17": ("boundary-face test chunked / sampled for the finest meshes.", ""),
    "C18": ("24 000 sampled {-2..2}^3 configurations also in the quick tier; 'GJK sliver' family (points collinear up to rounding on a "
            "line that misses the origin); K15 / K16 carry rate ceilings.", "D17 / D18 repaired what the sliver family found."),
    "C19": ("small shapes (0.01-0.05) across gaps of 1e-4..2e-2, half exactly axis-aligned incl. vertex / segment / quad hulls; EPA with "
            "raised documented limits on symmetric smooth pairs; iteration-cap stress with tiny caps; hang verdicts on CPU time.", ""),
    "C20": ("family 11: every solver with a tiny public iteration budget in all three modes.",
            "K26 (line_segment_to_circle ties + end-point clamp), K20 (MPR depth on deep penetrations)."),
}
