"""Per-check metadata for MANIFEST.json (see make_manifest.py)."""


def register(reg):
    reg("C03",
        "runtime oracle monitor on recorded support queries (history per object) + numba bounds-check sanitizer",
        "Every support_function/first_vertex/center answer of ~3 000 (quick) / 60 000 (thorough) generated colliders is "
        "compared with closed-form membership and support-value oracles; each object is queried with a hostile direction "
        "history (axes, sign boundaries, exact zeros, tilted axes, wide norms, pose update mid-history for meshes). "
        "Held = no answer off by more than 1e-9*L on the executions observed.",
        "Trusted: oracle closed forms (verif/oracles.py), scipy NNLS/Qhull for hull membership. Covers only generated inputs.",
        "DESIGN.md section 4 C03")
