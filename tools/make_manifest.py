#!/usr/bin/env python3
"""Regenerates MANIFEST.json from the table below (single source of truth for
what is claimed). Run from /verif: python3 tools/make_manifest.py"""
import json
import os
import sys

ROOT = os.path.dirname(os.path.dirname(os.path.abspath(__file__)))
sys.path.insert(0, ROOT)

PY = "/venv/bin/python"

# id -> (technique, level text, level note, design ref)
CHECKS = {}


def reg(pid, technique, text, note, ref):
    CHECKS[pid] = (technique, text, note, ref)


from tools.manifest_table import register  # noqa: E402

register(reg)

ALL = ["C%02d" % i for i in range(1, 21)]


def main():
    checks = []
    for pid in ALL:
        if pid not in CHECKS:
            continue
        tech, text, note, ref = CHECKS[pid]
        checks.append({
            "property_id": pid,
            "quick_cmd": "%s run_check.py %s --tier quick" % (PY, pid),
            "thorough_cmd": "%s run_check.py %s --tier thorough" % (PY, pid),
            "evidence_file": "evidence/%s.json" % pid,
            "replay_cmd_template": "%s run_check.py %s --replay {path}" % (PY, pid),
            "engine": "runtime-monitor",
            "level_claimed": {"category": "exploration", "text": text, "design_ref": ref},
            "level_note": note,
            "technique": tech,
        })
    na = [{"property_id": p, "reason": "check not built yet in this revision (work in progress); no claim is made"}
          for p in ALL if p not in CHECKS]
    man = {
        "version": 1,
        "setup_cmd": "%s -m verif.setup" % PY,
        "hooks": {
            "guard": "DISTANCE3D_VERIF",
            "enable": "no source hooks are needed: all monitors attach from the harness (collider proxies, sys.monitoring, "
                      "icontract contracts, NUMBA_BOUNDSCHECK); the guard name is reserved and unused",
            "baseline_off_cmd": "cd /repo && /venv/bin/python -m pytest -ra -q -p no:cacheprovider --timeout=900 --continue-on-collection-errors",
            "source_commits": [],
            "add_only": True,
        },
        "engines": [{
            "name": "runtime-monitor",
            "path": "run_check.py",
            "serves_properties": [c["property_id"] for c in checks],
            "kind_free_text": "runtime monitoring: the real library is executed on generated hostile workloads in sharded child "
                              "processes (faulthandler, crash containment, 4 of 16 shards under numba's bounds-check sanitizer); "
                              "independent oracles / executable models / contracts judge every recorded execution",
        }],
        "checks": checks,
        "not_applicable": na,
        "notes": "Technique family: runtime monitoring and sanitizers. Verdicts are 'held on the executions observed'. "
                 "Exit 0 held / 1 violation (VIOLATION line + replay file) / 3 inconclusive (INCONCLUSIVE line, no VIOLATION). "
                 "Known findings: known_findings.json. See DESIGN.md.",
    }
    if not na:
        del man["not_applicable"]
    with open(os.path.join(ROOT, "MANIFEST.json"), "w") as fh:
        json.dump(man, fh, indent=1)
    try:
        import jsonschema
        jsonschema.validate(man, json.load(open("/root/.vp/MANIFEST.schema.json")))
        print("MANIFEST.json valid;", len(checks), "checks,", len(na), "not applicable")
    except ImportError:
        print("MANIFEST.json written (jsonschema not importable here)")


if __name__ == "__main__":
    main()
