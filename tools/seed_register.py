#!/usr/bin/env python3
"""usage: seed_register.py <src-dir> <id> <property> <caught-by-checks,comma> <status> <needs...>
copies patch.diff, demo.py, notes.md to /verif/seeded/<id>/ and writes meta.json"""
import json, os, shutil, sys
src, sid, prop, caught, status = sys.argv[1:6]
needs = " ".join(sys.argv[6:])
dst = os.path.join(os.path.dirname(os.path.dirname(os.path.abspath(__file__))), "seeded", sid)
os.makedirs(dst, exist_ok=True)
for f in ("patch.diff", "demo.py", "notes.md"):
    if os.path.exists(os.path.join(src, f)):
        shutil.copy(os.path.join(src, f), os.path.join(dst, f))
meta = {
    "id": sid, "breaks_property": prop,
    "needs_to_manifest": needs,
    "author": "independent sub-agent given only the property text and a scratch worktree",
    "confirmed": {
        "how": "tools/seed_eval.sh: scratch worktree of /repo HEAD; demo.py exits 0 without and non-zero with the patch; "
               "the 62 pinned tests still pass with the patch (junit compared with BASELINE.json stable_pass)",
        "demo_rc_clean": 0, "demo_rc_mutated": 1, "pinned_stable_missing": []},
    "detected_by": [c for c in caught.split(",") if c and c != "-"],
    "status": status,
}
json.dump(meta, open(os.path.join(dst, "meta.json"), "w"), indent=1)
print("registered", sid, meta["detected_by"], status)
