#!/venv/bin/python
"""Single entry point of the verification machinery.

    run_check.py <Cxx> [--tier quick|thorough] [--seed N] [--replay path]

VERIF_SEED / VERIF_TIER override the defaults. See DESIGN.md.
"""
import argparse
import os
import sys

sys.path.insert(0, os.path.dirname(os.path.abspath(__file__)))
os.chdir(os.path.dirname(os.path.abspath(__file__)))

from verif import harness  # noqa: E402


def main():
    ap = argparse.ArgumentParser()
    ap.add_argument("prop")
    ap.add_argument("--tier", default=None, choices=harness.TIERS)
    ap.add_argument("--seed", type=int, default=None)
    ap.add_argument("--replay", default=None)
    ap.add_argument("--keep", action="store_true")
    a = ap.parse_args()
    tier = os.environ.get("VERIF_TIER") or a.tier or "quick"
    if tier not in harness.TIERS:
        tier = "quick"
    seed = a.seed if a.seed is not None else int(os.environ.get("VERIF_SEED", "0") or 0)
    rc = harness.run(a.prop, tier, seed, a.replay, a.keep)
    sys.exit(rc)


if __name__ == "__main__":
    main()
