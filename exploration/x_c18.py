import shim, warnings, sys, itertools
warnings.simplefilter('ignore')
import numpy as np
from fractions import Fraction as Fr
from distance3d.gjk._gjk_jolt import get_closest_point_to_origin
from distance3d.gjk import _gjk_original as GO
import orc
from collections import Counter
MAXF = np.finfo(float).max
def exact_min_norm_sq(P):
    """exact min ||x||^2 over conv(P) with rationals: enumerate subsets, solve affine min-norm, keep feasible"""
    P = [tuple(Fr(int(c)) for c in p) for p in P]
    best = None
    n = len(P)
    for k in range(1, n + 1):
        for S in itertools.combinations(range(n), k):
            Q = [P[i] for i in S]
            # min norm on affine hull: lam solves [G 1;1 0][lam;mu]=[0;1] with G gram; need nonsingular -> skip dependent
            G = [[sum(a * b for a, b in zip(q1, q2)) for q2 in Q] for q1 in Q]
            A = [row + [Fr(1)] for row in G] + [[Fr(1)] * k + [Fr(0)]]
            b = [Fr(0)] * k + [Fr(1)]
            sol = solve(A, b)
            if sol is None: continue
            lam = sol[:k]
            if any(l < 0 for l in lam): continue
            x = [sum(l * q[j] for l, q in zip(lam, Q)) for j in range(3)]
            v = sum(c * c for c in x)
            if best is None or v < best: best = v
    return best
def solve(A, b):
    n = len(A); M = [row[:] + [bb] for row, bb in zip(A, b)]
    for c in range(n):
        piv = next((r for r in range(c, n) if M[r][c] != 0), None)
        if piv is None: return None
        M[c], M[piv] = M[piv], M[c]
        for r in range(n):
            if r != c and M[r][c] != 0:
                f = M[r][c] / M[c][c]; M[r] = [a - f * bb for a, bb in zip(M[r], M[c])]
    return [M[i][n] / M[i][i] for i in range(n)]
cnt = Counter(); ex = {}
pts = list(itertools.product((-1, 0, 1), repeat=3))
rng = np.random.default_rng(0)
for k in (1, 2, 3, 4):
    combos = list(itertools.product(pts, repeat=k)) if k <= 2 else [tuple(pts[i] for i in rng.integers(len(pts), size=k)) for _ in range(4000)]
    for P in combos:
        ref = float(exact_min_norm_sq(P))
        Y = np.zeros((4, 3)); Y[:k] = np.array(P, float)
        ok, v, vsq, simplex = get_closest_point_to_origin(Y, k, MAXF)
        if not ok:
            cnt[(k, "jolt", "notsuccess")] += 1; continue
        good = abs(vsq - ref) <= 1e-9 * max(1, ref)
        # subset contains v
        sub = np.array([P[i] for i in range(k) if simplex & (1 << i)], float)
        inhull = orc.dist_point_hull(np.array(v), sub) < 1e-9 if len(sub) > 1 else np.linalg.norm(sub[0] - v) < 1e-9
        key = (k, "jolt", "ok" if good and inhull else ("BADnorm" if not good else "BADsubset"))
        cnt[key] += 1; ex.setdefault(key, (P, vsq, ref, simplex))
for k in sorted(cnt): print(k, cnt[k], ex.get(k) if "BAD" in k[2] else "")
