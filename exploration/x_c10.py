import shim, warnings, sys, math, itertools
warnings.simplefilter('ignore')
import numpy as np
from distance3d import distance as D
import gen, orc
from collections import Counter, defaultdict
seed = int(sys.argv[1]); rng = np.random.default_rng(seed); N = int(sys.argv[2])
c_ = lambda x: np.ascontiguousarray(x, dtype=float)
def unit(v): return v / np.linalg.norm(v)
def sz(): return float(rng.choice([rng.uniform(0.2, 2), gen.logu(rng, 0.2, 100)]))
FR = None
def frame():
    """shared frame to create parallel/perpendicular/coplanar placements"""
    return orc.rand_rot(rng)
def dirn(F):
    m = rng.choice(["rand", "F", "Fdiag"], p=[.4, .4, .2])
    if m == "F": return F[:, rng.integers(3)] * rng.choice([-1., 1.])
    if m == "Fdiag":
        while True:
            v = rng.choice([-1., 0., 1., 1.], 3)
            if np.any(v != 0): return unit(F @ v)
    return unit(rng.normal(size=3))
def pt(F, c0, s):
    m = rng.choice(["rand", "lattice"], p=[.6, .4])
    if m == "lattice": return c0 + F @ (rng.integers(-2, 3, 3) * s * 0.5)
    return c0 + rng.normal(size=3) * s
class Prim: pass
def mk(kind, F, c0, s):
    p = Prim(); p.kind = kind
    if kind == "point":
        p.args = (c_(pt(F, c0, s)),); p.V = np.array([p.args[0]]); p.bounded = True
    elif kind == "line":
        p.args = (c_(pt(F, c0, s)), c_(dirn(F))); p.bounded = False
    elif kind == "segment":
        a = pt(F, c0, s); b = a + dirn(F) * sz(); p.args = (c_(a), c_(b)); p.V = np.array([a, b]); p.bounded = True
    elif kind == "plane":
        p.args = (c_(pt(F, c0, s)), c_(dirn(F))); p.bounded = False
    elif kind == "triangle":
        while True:
            V = np.array([pt(F, c0, s) for _ in range(3)])
            if np.linalg.norm(np.cross(V[1] - V[0], V[2] - V[0])) > 1e-3 * s * s: break
        p.args = (c_(V),); p.V = V; p.bounded = True
    elif kind == "rectangle":
        R = F if rng.random() < .5 else orc.rand_rot(rng)
        c = pt(F, c0, s); ax = c_(R[:, :2].T); l = np.array([sz(), sz()])
        p.args = (c_(c), ax, l); p.V = c + np.array([[i * l[0] / 2, j * l[1] / 2] for i in (-1, 1) for j in (-1, 1)]) @ ax; p.bounded = True
    elif kind == "box":
        R = F if rng.random() < .5 else orc.rand_rot(rng)
        T = orc.pose(R, pt(F, c0, s)); size = np.array([sz(), sz(), sz()])
        p.args = (T, size); p.V = T[:3, 3] + np.array(list(itertools.product([-.5, .5], repeat=3))) * size @ R.T; p.bounded = True
    return p
def dist_to(p, x):
    """oracle distance from point x to primitive p"""
    k = p.kind
    if k == "line":
        v = x - p.args[0]; return np.linalg.norm(v - (v @ p.args[1]) * p.args[1])
    if k == "plane": return abs((x - p.args[0]) @ p.args[1])
    return orc.dist_point_hull(x, p.V) if len(p.V) > 1 else np.linalg.norm(x - p.V[0])
def ref_dist(a, b):
    if a.bounded and b.bounded:
        M = (a.V[:, None, :] - b.V[None, :, :]).reshape(-1, 3)
        return orc.dist_point_hull(np.zeros(3), M)
    if not a.bounded and b.bounded: a, b = b, a
    if a.bounded:  # b unbounded
        if b.kind == "plane":
            sgn = (a.V - b.args[0]) @ b.args[1]
            return 0.0 if sgn.min() <= 0 <= sgn.max() else float(np.abs(sgn).min())
        # line vs bounded convex: 1-D convex minimisation
        lp, ld = b.args; ts = (a.V - lp) @ ld; lo, hi = ts.min() - 1, ts.max() + 1
        f = lambda t: dist_to(a, lp + t * ld)
        for _ in range(100):
            m1, m2 = lo + (hi - lo) / 3, hi - (hi - lo) / 3
            if f(m1) < f(m2): hi = m2
            else: lo = m1
        return f(0.5 * (lo + hi))
    # both unbounded
    if a.kind == "line" and b.kind == "line":
        (p1, d1), (p2, d2) = a.args, b.args; n = np.cross(d1, d2)
        if np.linalg.norm(n) < 1e-12: v = p2 - p1; return np.linalg.norm(v - (v @ d1) * d1)
        return abs((p2 - p1) @ unit(n))
    if a.kind == "plane" and b.kind == "plane":
        (p1, n1), (p2, n2) = a.args, b.args
        return abs((p2 - p1) @ n1) if np.linalg.norm(np.cross(n1, n2)) < 1e-12 else 0.0
    if a.kind == "plane": a, b = b, a
    (lp, ld), (pp, pn) = a.args, b.args
    return abs((lp - pp) @ pn) if abs(ld @ pn) < 1e-12 else 0.0
FUN = {
 ("point", "line"): D.point_to_line, ("point", "segment"): D.point_to_line_segment, ("point", "plane"): D.point_to_plane,
 ("point", "triangle"): D.point_to_triangle, ("point", "rectangle"): D.point_to_rectangle, ("point", "box"): D.point_to_box,
 ("line", "line"): D.line_to_line, ("line", "segment"): D.line_to_line_segment, ("line", "plane"): D.line_to_plane,
 ("line", "triangle"): D.line_to_triangle, ("line", "rectangle"): D.line_to_rectangle, ("line", "box"): D.line_to_box,
 ("segment", "segment"): D.line_segment_to_line_segment, ("segment", "plane"): D.line_segment_to_plane,
 ("segment", "triangle"): D.line_segment_to_triangle, ("segment", "rectangle"): D.line_segment_to_rectangle, ("segment", "box"): D.line_segment_to_box,
 ("plane", "plane"): D.plane_to_plane, ("plane", "triangle"): D.plane_to_triangle, ("plane", "rectangle"): D.plane_to_rectangle, ("plane", "box"): D.plane_to_box,
 ("triangle", "triangle"): D.triangle_to_triangle, ("triangle", "rectangle"): D.triangle_to_rectangle,
 ("rectangle", "rectangle"): D.rectangle_to_rectangle, ("rectangle", "box"): D.rectangle_to_box,
}
worst = defaultdict(lambda: [0., 0., 0.]); cnt = Counter(); ex = {}
keys = list(FUN)
for it in range(N):
    ka, kb = keys[rng.integers(len(keys))]
    F = frame(); c0 = gen.center(rng); s = sz()
    a, b = mk(ka, F, c0, s), mk(kb, F, c0, s)
    L = max(1.0, s, np.linalg.norm(c0) + 3 * s)
    name = FUN[(ka, kb)].__name__
    try:
        r = FUN[(ka, kb)](*a.args, *b.args)
    except Exception as e:
        cnt[(name, "EXC:" + type(e).__name__)] += 1; continue
    if ka == "point": d, p2 = r; p1 = a.args[0]
    else: d, p1, p2 = r[:3]
    if name.startswith("plane_to_") and name != "plane_to_plane": pass
    if not (np.isfinite(d) and np.all(np.isfinite(p1)) and np.all(np.isfinite(p2))):
        cnt[(name, "nonfinite")] += 1
        ex.setdefault((name, "feas"), ("nonfinite", [x.tolist() if hasattr(x, "tolist") else x for x in a.args], [x.tolist() if hasattr(x, "tolist") else x for x in b.args]))
        continue
    ref = ref_dist(a, b)
    feas = max(dist_to(a, np.asarray(p1)), dist_to(b, np.asarray(p2)))
    feas_sw = max(dist_to(a, np.asarray(p2)), dist_to(b, np.asarray(p1)))
    cons = abs(np.linalg.norm(np.asarray(p1) - np.asarray(p2)) - d)
    opt = d - ref
    w = worst[name]; w[0] = max(w[0], min(feas, feas_sw) / L); w[1] = max(w[1], cons / L); w[2] = max(w[2], opt / L)
    cnt[(name, "n")] += 1
    for tag, val, tol in (("feas", min(feas, feas_sw), 1e-9), ("cons", cons, 1e-6), ("opt", opt, 1e-6), ("swapped_pts", 0 if feas <= feas_sw + 1e-9 else 1, 0.5)):
        if val / (L if tag != "swapped_pts" else 1) > tol:
            cnt[(name, tag)] += 1
            ex.setdefault((name, tag), (val / L, [x.tolist() if hasattr(x, "tolist") else x for x in a.args], [x.tolist() if hasattr(x, "tolist") else x for x in b.args], float(d), float(ref)))
            if not np.isfinite(d): cnt[(name, "nonfinite")] += 1
for k in sorted(worst): print("%-30s feas=%.1e cons=%.1e opt=%.1e" % (k, *worst[k]), {t: cnt[(k, t)] for t in ("n", "feas", "cons", "opt", "swapped_pts") if cnt[(k, t)]})
print({k: v for k, v in cnt.items() if k[1].startswith("EXC") or k[1] == "nonfinite"})
import json
for k, v in ex.items():
    if k[1] in ("opt", "feas"): print(k, json.dumps(v)[:600])
