import shim, warnings, sys
warnings.simplefilter('ignore')
import numpy as np
import distance3d.hydroelastic_contact as hc
from distance3d.geometry import barycentric_coordinates_tetrahedron
import orc
from collections import Counter
rng = np.random.default_rng(int(sys.argv[1])); cnt = Counter(); worst = [0, 0, 0]
def mk(k, T):
    if k == "sphere":
        b = hc.RigidBody.make_sphere(np.zeros(3), 0.5, 1); b.body2origin_ = T.copy(); return b
    if k == "box": return hc.RigidBody.make_box(T.copy(), np.array([1.0, 0.8, 0.6]))
    if k == "cube": return hc.RigidBody.make_cube(T.copy(), 1.0)
    if k == "cyl": return hc.RigidBody.make_cylinder(T.copy(), 0.4, 1.0, 0.4)
    if k == "caps": return hc.RigidBody.make_capsule(T.copy(), 0.3, 0.6, 0.4)
for trial in range(int(sys.argv[2])):
    k1, k2 = rng.choice(["sphere", "box", "cube", "cyl", "caps"], 2)
    aligned = rng.random() < .5
    R1 = orc.rand_rot(rng, "perm" if aligned else "haar"); R2 = orc.rand_rot(rng, "perm" if aligned else "haar")
    t1 = rng.integers(-2, 3, 3).astype(float) if aligned else rng.normal(size=3)
    off = np.eye(3)[rng.integers(3)] * rng.choice([-1, 1]) * rng.choice([0.5, 0.7, 0.9]) if aligned else orc.rand_rot(rng, "haar")[:, 0] * rng.uniform(0.3, 0.9)
    b1, b2 = mk(k1, orc.pose(R1, t1)), mk(k2, orc.pose(R2, t1 + off))
    cs = hc.find_contact_surface(b1, b2)
    tp1, tp2 = b1.tetrahedra_points, b2.tetrahedra_points
    for i, (pl, poly, i1, i2) in enumerate(zip(cs.contact_planes, cs.contact_polygons, cs.intersecting_tetrahedra1, cs.intersecting_tetrahedra2)):
        pd = np.abs(poly @ pl[:3] - pl[3]).max()
        b = min(min(barycentric_coordinates_tetrahedron(v, tp1[i1]).min(), barycentric_coordinates_tetrahedron(v, tp2[i2]).min()) for v in poly)
        f = cs.contact_forces[i]; fn = np.linalg.norm(f)
        par = np.linalg.norm(np.cross(f, pl[:3])) / max(fn, 1e-300) if fn > 0 else 0
        worst[0] = max(worst[0], pd); worst[1] = min(worst[1], b); worst[2] = max(worst[2], par)
        cnt[("aligned" if aligned else "general", "ok" if (pd < 1e-9 and b > -1e-9) else "BAD")] += 1
        if np.dot(f, pl[:3]) < -1e-12: cnt[("negpressure", aligned)] += 1
print(cnt, "plane_dev=%.1e min_bary=%.2e nonparallel=%.1e" % tuple(worst))
