import shim, warnings, sys
warnings.simplefilter('ignore')
import numpy as np
from distance3d import colliders as C, gjk
import gen, orc, place
from collections import Counter
rng = np.random.default_rng(7); cnt = Counter()
for it in range(3000):
    A = gen.make(rng, rng.choice(["ellipsoid", "cylinder", "sphere", "box", "capsule"])); B = gen.make(rng, "ellipsoid")
    s = max(orc.oracle_of(A).scale(), orc.oracle_of(B).scale())
    g = gen.logu(rng, 1e-2, 10) * s
    B, u = place.pair_at_gap(rng, A, B, g)
    for acc in (False, True):
        inside, d, simplex, i = gjk.gjk_nesterov_accelerated_primitives(A, B, use_nesterov_acceleration=acc)
        ok = abs(max(d, 0) - g) < 1e-3 * max(1, s, g)
        cnt[(acc, ok, "maxit" if i >= 128 else "conv", bool(inside))] += 1
        if not ok and cnt[(acc, ok, "x")] < 3:
            cnt[(acc, ok, "x")] += 1
            print(acc, type(A).__name__, "g=%.4g d=%.4g i=%d inside=%s" % (g, d, i, inside))
print(cnt)
