import shim, warnings, sys, math
warnings.simplefilter('ignore')
import numpy as np
from distance3d import distance as D
import gen, orc
from collections import Counter, defaultdict
rng = np.random.default_rng(int(sys.argv[1])); N = int(sys.argv[2])
c_ = lambda x: np.ascontiguousarray(x, dtype=float)
def sz(): return float(rng.choice([rng.uniform(0.2, 2), gen.logu(rng, 0.2, 100)]))
worst = defaultdict(lambda: [0., 0., 0.]); cnt = Counter(); ex = {}
def rec(name, feas, cons, opt, L, info):
    w = worst[name]; w[0] = max(w[0], feas / L); w[1] = max(w[1], cons / L); w[2] = max(w[2], abs(opt) / L); cnt[(name, "n")] += 1
    if feas / L > 1e-9 or cons / L > 1e-6 or abs(opt) / L > 1e-6 or not np.isfinite(feas + cons + opt):
        cnt[(name, "BAD")] += 1; ex.setdefault(name, (feas / L, cons / L, opt / L, info))
for it in range(N):
    R = orc.rand_rot(rng); c = gen.center(rng); T = orc.pose(R, c)
    s = sz()
    m = rng.choice(["rand", "axis", "inside", "surface", "center", "far"])
    loc = {"rand": rng.normal(size=3) * s * 2, "axis": np.eye(3)[rng.integers(3)] * rng.normal() * s * 2, "inside": rng.normal(size=3) * s * 0.1,
           "surface": None, "center": np.zeros(3), "far": rng.normal(size=3) * s * 50}[m]
    # ellipsoid
    radii = np.array([sz(), sz(), sz()]) if rng.random() < .7 else np.array([s, s, s * rng.choice([1, 0.5])])
    o = orc.OEllipsoid(T, radii)
    l = loc if loc is not None else radii * orc.rand_rot(rng)[:, 0]
    p = c + R @ l
    L = max(1, max(radii), np.linalg.norm(c), np.linalg.norm(p))
    for surf in (False, True):
        try:
            d, q = D.point_to_ellipsoid(c_(p), T, radii, distance_to_surface=surf)
            ql = R.T @ (q - c); onsurf = abs(np.sum((ql / radii) ** 2) - 1) * min(radii)
            if not surf:
                ref = o.dist(p); feas = o.dist(q)
            else:
                inside = np.sum((l / radii) ** 2) < 1
                ref = o.dist(p) if not inside else None
                feas = onsurf
            opt = (d - ref) if ref is not None else 0.0
            rec("point_to_ellipsoid(surface=%s)/%s" % (surf, m), feas, abs(np.linalg.norm(p - q) - d), opt, L, (p.tolist(), T.tolist(), radii.tolist(), float(d), ref))
        except Exception as e: cnt[("point_to_ellipsoid", type(e).__name__)] += 1
    # cylinder
    r, ln = sz(), sz(); oc = orc.OCylinder(T, r, ln)
    d, q = D.point_to_cylinder(c_(p), T, r, ln)
    rec("point_to_cylinder", oc.dist(q), abs(np.linalg.norm(p - q) - d), d - oc.dist(p), L, None)
    # disk
    od = orc.ODisk(c, r, R[:, 2]); d, q = D.point_to_disk(c_(p), c_(c), r, c_(R[:, 2]))
    rec("point_to_disk", od.dist(q), abs(np.linalg.norm(p - q) - d), d - od.dist(p), L, None)
    # planes
    pn = orc.rand_rot(rng)[:, 0] if rng.random() < .6 else R[:, rng.integers(3)]
    pp = c + rng.normal(size=3) * s * rng.choice([0, 0.3, 3])
    for name, oo, call in (("plane_to_ellipsoid", o, lambda: D.plane_to_ellipsoid(c_(pp), c_(pn), T, radii)), ("plane_to_cylinder", oc, lambda: D.plane_to_cylinder(c_(pp), c_(pn), T, r, ln))):
        d, q1, q2 = call()
        smax = oo.h(pn) - pn @ pp; smin = -oo.h(-pn) - pn @ pp
        ref = 0.0 if smin <= 0 <= smax else min(abs(smin), abs(smax))
        f1 = min(max(abs((q1 - pp) @ pn), oo.dist(q2)), max(abs((q2 - pp) @ pn), oo.dist(q1)))
        rec(name, f1, abs(np.linalg.norm(q1 - q2) - d), d - ref, L, (pp.tolist(), pn.tolist(), T.tolist(), float(d), float(ref)))
for k in sorted(worst): print("%-44s feas=%.1e cons=%.1e opt=%.1e" % (k, *worst[k]), cnt[(k, "BAD")], "/", cnt[(k, "n")])
print({k: v for k, v in cnt.items() if k[1] not in ("n", "BAD")})
for k, v in ex.items(): print(k, str(v)[:400])
