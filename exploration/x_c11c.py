import shim, warnings, sys, math
warnings.simplefilter('ignore')
import numpy as np
from distance3d import distance as D
import gen
from collections import Counter
rng = np.random.default_rng(1)
def unit(v): return v / np.linalg.norm(v)
worst = []
for it in range(4000):
    c = gen.center(rng); r = float(rng.choice([rng.uniform(0.2, 2), gen.logu(rng, 0.2, 100)])); n = unit(rng.normal(size=3))
    a = np.eye(3)[np.argmin(np.abs(n))]; x = unit(np.cross(n, a)); y = np.cross(n, x)
    th = np.linspace(0, 2*np.pi, 20000, endpoint=False)
    P = c + r * (np.cos(th)[:, None] * x + np.sin(th)[:, None] * y)
    lp = c + rng.normal(size=3) * r * rng.choice([0.3, 1, 3]); ld = unit(rng.normal(size=3))
    v = P - lp; dl = np.linalg.norm(v - np.outer(v @ ld, ld), axis=1); ref = dl.min()
    d, p1, p2 = D.line_to_circle(np.ascontiguousarray(lp), np.ascontiguousarray(ld), c, r, n)
    L = max(1, r, np.linalg.norm(c), np.linalg.norm(lp))
    worst.append(((d - ref) / L, d, ref, r, np.linalg.norm(c)))
worst.sort(reverse=True)
for w in worst[:8]: print(["%.4g" % x for x in w])
print("frac > 5e-3:", np.mean([w[0] > 5e-3 for w in worst]), " >1e-4:", np.mean([w[0] > 1e-4 for w in worst]))
