import shim, warnings, sys
warnings.simplefilter('ignore')
import numpy as np
import distance3d.hydroelastic_contact as hc
from distance3d.hydroelastic_contact import _tetrahedron_intersection as TI
from distance3d.geometry import barycentric_coordinates_tetrahedron
from distance3d.utils import plane_basis_from_normal, EPSILON
import orc
b1 = hc.RigidBody.make_cube(np.eye(4), 1.0)
T2 = np.eye(4); T2[:3, 3] = [0, 0, 0.7]
b2 = hc.RigidBody.make_cube(T2, 1.0)
cs = hc.find_contact_surface(b1, b2)
tp1, tp2 = b1.tetrahedra_points, b2.tetrahedra_points
print("n polygons", len(cs.contact_polygons), "area sum", sum(cs.contact_areas), "(expected 1.0)")
for i, (pl, poly, i1, i2) in enumerate(zip(cs.contact_planes, cs.contact_polygons, cs.intersecting_tetrahedra1, cs.intersecting_tetrahedra2)):
    b = min(min(barycentric_coordinates_tetrahedron(v, tp1[i1]).min(), barycentric_coordinates_tetrahedron(v, tp2[i2]).min()) for v in poly)
    if b < -1e-9:
        print("BAD", i, i1, i2, "plane", pl, "minbary", b, "area", cs.contact_areas[i])
        X1 = hc.barycentric_transforms(tp1[i1:i1+1])[0]; X2 = hc.barycentric_transforms(tp2[i2:i2+1])[0]
        n = pl[:3]; d = pl[3]
        c2p = np.vstack(plane_basis_from_normal(n))
        X = np.vstack((X1, X2))
        normals2d = X[:, :3] @ c2p.T
        print(" 2d normal norms", np.linalg.norm(normals2d, axis=1))
        hp = TI.make_halfplanes(X, n * d, c2p); print(" n halfplanes", len(hp))
        print(" polygon", poly)
        print(" tet1", tp1[i1].tolist()); print(" tet2", tp2[i2].tolist())
        break
