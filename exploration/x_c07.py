import shim, warnings, sys
warnings.simplefilter('ignore')
import numpy as np
from scipy.spatial import ConvexHull
from distance3d import colliders as C, gjk, epa, mpr
import gen, orc, place
from collections import Counter
seed = int(sys.argv[1]); rng = np.random.default_rng(seed); N = int(sys.argv[2])
def verts(col):
    if type(col) is C.MeshGraph:
        T = col.mesh2origin; return col.vertices @ T[:3,:3].T + T[:3,3]
    return col.vertices
def exact_depth(A, B):
    VA, VB = verts(A), verts(B)
    M = (VA[:, None, :] - VB[None, :, :]).reshape(-1, 3)
    ch = ConvexHull(M)
    offs = ch.equations[:, 3]
    if np.any(offs > 0): return None, None
    i = np.argmax(offs)
    global _EQ
    _EQ = ch.equations
    return -offs[i], ch.equations[i, :3]
def resid_depth(tu):
    off2 = _EQ[:, 3] + _EQ[:, :3] @ tu
    if np.any(off2 > 0): return 0.0
    return float(np.min(-off2))
cnt = Counter(); bad = []
ratios = []
for it in range(N):
    kA, kB = rng.choice(["box", "hull", "mesh"], 2)
    sc = None if rng.random() < .6 else gen.logu(rng, 1e-2, 1e2)
    A = gen.make(rng, kA, scale=sc); B = gen.make(rng, kB, scale=sc)
    oA = orc.oracle_of(A); s = max(oA.scale(), orc.oracle_of(B).scale())
    g = -gen.logu(rng, 1e-3, 0.5) * min(oA.scale(), orc.oracle_of(B).scale())
    B, u = place.pair_at_gap(rng, A, B, g)
    oB = orc.oracle_of(B)
    L = max(1.0, oA.scale(), oB.scale(), np.linalg.norm(A.center() - B.center()), np.linalg.norm(A.center()), np.linalg.norm(B.center()))
    depth, nstar = exact_depth(A, B)
    if depth is None: cnt["not-overlapping"] += 1; continue
    d, a, b, simplex = gjk.gjk(A, B)
    if d != 0.0: cnt["gjk says separated depth=%.0e" % depth] += 1; continue
    try:
        mtv, faces, success = epa.epa(simplex, A, B)
    except AssertionError:
        cnt["epa assert"] += 1; continue
    except Exception as e:
        cnt["epa exc " + type(e).__name__] += 1; continue
    if not success: cnt["epa no success"] += 1; continue
    t = np.linalg.norm(mtv)
    if not np.isfinite(t): cnt["nan"] += 1; continue
    n = mtv / t if t > 0 else nstar
    resid = (oA.h(n) + oB.h(-n) - t)   # >0: still overlapping along n
    e_min = (t - depth) / L
    e_sep = resid / L
    cnt["success"] += 1
    ratios.append(t / depth)
    if abs(e_min) > 1e-6 or e_sep > 1e-6:
        cnt["BAD"] += 1
        if len(bad) < 30: bad.append((it, kA, kB, "L=%.3g depth*=%.5g |mtv|=%.5g ratio=%.3f resid=%.2e" % (L, depth, t, t/depth, resid)))
    # MPR
    inter, dep, pdir, pos = mpr.mpr_penetration(A, B)
    if not inter: cnt["mpr no inter"] += 1
    else:
        r2 = resid_depth(dep * pdir)
        cnt["mpr ok" if (r2 <= 2e-3 * L and dep >= depth - 2e-3 * L and max(oA.dist(pos), oB.dist(pos)) <= 2e-3*L) else "mpr BAD"] += 1
        if not (r2 <= 2e-3 * L and dep >= depth - 2e-3 * L and max(oA.dist(pos), oB.dist(pos)) <= 2e-3*L) and len(bad) < 60:
            bad.append((it, "mpr", kA, kB, "L=%.3g depth*=%.5g dep=%.5g resid=%.2e posA=%.2e posB=%.2e" % (L, depth, dep, r2, oA.dist(pos), oB.dist(pos))))
print(cnt)
r = np.array(ratios); print("ratio quantiles", np.quantile(r, [0, .5, .9, .99, 1]) if len(r) else None)
for b in bad: print(b)
