"""Exploration-only oracles (independent of distance3d numerics)."""
import math
import numpy as np
from scipy.spatial import ConvexHull
from scipy.optimize import nnls


def rand_rot(rng, kind=None):
    kind = kind or rng.choice(["haar", "axis", "perm", "ident", "tiny"], p=[.5, .15, .15, .1, .1])
    if kind == "ident":
        return np.eye(3)
    if kind == "perm":
        P = np.eye(3)[rng.permutation(3)]
        S = np.diag(rng.choice([-1.0, 1.0], 3))
        R = P @ S
        if np.linalg.det(R) < 0:
            R[:, 0] *= -1
        return R
    if kind == "axis":
        a = rng.choice([0.5, 1.0, 1.5, 2.0, 0.25]) * np.pi
        ax = rng.integers(3)
        c, s = math.cos(a), math.sin(a)
        R = np.eye(3)
        i, j = [(1, 2), (2, 0), (0, 1)][ax]
        R[i, i] = c; R[j, j] = c; R[i, j] = -s; R[j, i] = s
        return R
    if kind == "tiny":
        w = rng.normal(size=3) * 10 ** rng.uniform(-9, -3)
        K = np.array([[0, -w[2], w[1]], [w[2], 0, -w[0]], [-w[1], w[0], 0]])
        Q, _ = np.linalg.qr(np.eye(3) + K)
        Q = Q * np.sign(np.diag(Q))
        return Q
    Q, R = np.linalg.qr(rng.normal(size=(3, 3)))
    Q = Q * np.sign(np.diag(R))
    if np.linalg.det(Q) < 0:
        Q[:, 0] *= -1
    return Q


def pose(R, t):
    T = np.eye(4)
    T[:3, :3] = R
    T[:3, 3] = t
    return T


# ---------- signed "distance to shape" oracles in local frame ----------
def _dist_point_poly2d(p, poly):
    """distance from 2D point to convex polygon (ccw list); 0 if inside."""
    n = len(poly)
    inside = True
    best = np.inf
    for i in range(n):
        a, b = poly[i], poly[(i + 1) % n]
        e = b - a
        if e[0] * (p[1] - a[1]) - e[1] * (p[0] - a[0]) < 0:
            inside = False
        t = np.clip(np.dot(p - a, e) / np.dot(e, e), 0, 1)
        best = min(best, np.linalg.norm(p - (a + t * e)))
    return 0.0 if inside else best


def dist_ellipse2d(p, r):
    """distance from 2D point p to solid ellipse with radii r (robust bisection, Eberly)."""
    p = np.abs(np.asarray(p, float)); r = np.asarray(r, float)
    if (p[0] / r[0]) ** 2 + (p[1] / r[1]) ** 2 <= 1.0:
        return 0.0
    return _dist_ellipsoid_surface(p, r)


def _dist_ellipsoid_surface(y, e):
    """Distance from point y (outside or on) to ellipsoid/ellipse surface, any dim.
    Solve sum (e_i y_i/(t+e_i^2))^2 = 1 for t >= 0 by bisection."""
    y = np.abs(np.asarray(y, float)); e = np.asarray(e, float)
    e2 = e * e
    f = lambda t: np.sum((e * y / (t + e2)) ** 2) - 1.0
    lo = 0.0
    hi = max(e) * np.linalg.norm(y) + 1.0
    while f(hi) > 0:
        hi *= 2
    for _ in range(200):
        mid = 0.5 * (lo + hi)
        if f(mid) > 0:
            lo = mid
        else:
            hi = mid
    t = 0.5 * (lo + hi)
    x = e2 * y / (t + e2)
    return float(np.linalg.norm(x - y))


class Shape:
    """Oracle view of a shape: support value h(n), distance dist(p) (0 inside)."""


class OSphere(Shape):
    def __init__(s, c, r): s.c = np.array(c, float); s.r = r
    def h(s, n): return s.c @ n + s.r * np.linalg.norm(n)
    def dist(s, p): return max(0.0, np.linalg.norm(p - s.c) - s.r)
    def scale(s): return s.r


class OPosed(Shape):
    def __init__(s, T): s.T = np.array(T, float); s.R = s.T[:3, :3]; s.t = s.T[:3, 3]
    def loc(s, p): return s.R.T @ (p - s.t)
    def h(s, n): return s.t @ n + s.hl(s.R.T @ n)
    def dist(s, p): return s.dl(s.loc(p))


class OBox(OPosed):
    def __init__(s, T, size): super().__init__(T); s.hs = 0.5 * np.array(size, float)
    def hl(s, n): return np.abs(n) @ s.hs
    def dl(s, p): return float(np.linalg.norm(np.maximum(np.abs(p) - s.hs, 0)))
    def scale(s): return 2 * max(s.hs)


class OCapsule(OPosed):
    def __init__(s, T, r, h): super().__init__(T); s.r = r; s.hh = 0.5 * h
    def hl(s, n): return abs(n[2]) * s.hh + s.r * np.linalg.norm(n)
    def dl(s, p):
        z = np.clip(p[2], -s.hh, s.hh)
        return max(0.0, math.sqrt(p[0] ** 2 + p[1] ** 2 + (p[2] - z) ** 2) - s.r)
    def scale(s): return max(s.r, 2 * s.hh)


class OCylinder(OPosed):
    def __init__(s, T, r, l): super().__init__(T); s.r = r; s.hl_ = 0.5 * l
    def hl(s, n): return abs(n[2]) * s.hl_ + s.r * math.hypot(n[0], n[1])
    def dl(s, p):
        rho = math.hypot(p[0], p[1])
        return math.hypot(max(rho - s.r, 0), max(abs(p[2]) - s.hl_, 0))
    def scale(s): return max(s.r, 2 * s.hl_)


class OCone(OPosed):
    """base disk at z=0 radius r, apex at z=h."""
    def __init__(s, T, r, h): super().__init__(T); s.r = r; s.hgt = h
    def hl(s, n): return max(s.r * math.hypot(n[0], n[1]), n[2] * s.hgt)
    def dl(s, p):
        rho = math.hypot(p[0], p[1])
        poly = [np.array([-s.r, 0.0]), np.array([s.r, 0.0]), np.array([0.0, s.hgt])]
        return _dist_point_poly2d(np.array([rho, p[2]]), poly)
    def scale(s): return max(s.r, s.hgt)


class OEllipsoid(OPosed):
    def __init__(s, T, radii): super().__init__(T); s.e = np.array(radii, float)
    def hl(s, n): return float(np.linalg.norm(s.e * n))
    def dl(s, p):
        if np.sum((p / s.e) ** 2) <= 1.0:
            return 0.0
        return _dist_ellipsoid_surface(p, s.e)
    def scale(s): return max(s.e)


class ODisk(Shape):
    def __init__(s, c, r, n): s.c = np.array(c, float); s.r = r; s.n = np.array(n, float)
    def h(s, d):
        dp = d - (d @ s.n) * s.n
        return s.c @ d + s.r * np.linalg.norm(dp)
    def dist(s, p):
        v = p - s.c; z = v @ s.n; rho = np.linalg.norm(v - z * s.n)
        return math.hypot(max(rho - s.r, 0), z)
    def scale(s): return s.r


class OEllipse(Shape):
    def __init__(s, c, axes, radii): s.c = np.array(c, float); s.A = np.array(axes, float); s.e = np.array(radii, float)
    def h(s, d): return s.c @ d + float(np.linalg.norm(s.e * (s.A @ d)))
    def dist(s, p):
        v = p - s.c; uv = s.A @ v
        z = np.linalg.norm(v - uv @ s.A)
        return math.hypot(dist_ellipse2d(uv, s.e), z)
    def scale(s): return max(s.e)


def dist_point_hull(p, V):
    """distance from p to conv(V) via NNLS with sum-to-one penalty row."""
    V = np.asarray(V, float)
    c = V.mean(axis=0)
    sc = max(1.0, np.abs(V - c).max(), np.abs(p - c).max())
    W = ((V - c) / sc).T
    q = (p - c) / sc
    M = 1e3
    A = np.vstack([W, M * np.ones((1, W.shape[1]))])
    b = np.concatenate([q, [M]])
    lam, _ = nnls(A, b, maxiter=20 * W.shape[1] + 100)
    lam = lam / lam.sum()
    return float(np.linalg.norm(W @ lam - q) * sc)


class OHull(Shape):
    def __init__(s, V): s.V = np.array(V, float)
    def h(s, n): return float(np.max(s.V @ n))
    def dist(s, p): return dist_point_hull(p, s.V)
    def scale(s): return float(np.ptp(s.V, axis=0).max())


class OMargin(Shape):
    def __init__(s, base, m): s.b = base; s.m = m
    def h(s, n): return s.b.h(n) + s.m * np.linalg.norm(n)
    def dist(s, p): return max(0.0, s.b.dist(p) - s.m)
    def scale(s): return s.b.scale() + 2 * s.m


def oracle_of(col):
    from distance3d import colliders as C
    t = type(col)
    if t is C.Margin:
        return OMargin(oracle_of(col.collider), col.margin)
    if t is C.Sphere: return OSphere(col.c, col.radius)
    if t is C.Box: return OBox(col.box2origin, col.size)
    if t is C.Capsule: return OCapsule(col.capsule2origin, col.radius, col.height)
    if t is C.Cylinder: return OCylinder(col.cylinder2origin, col.radius, col.length)
    if t is C.Cone: return OCone(col.cone2origin, col.radius, col.height)
    if t is C.Ellipsoid: return OEllipsoid(col.ellipsoid2origin, col.radii)
    if t is C.Disk: return ODisk(col.c, col.radius, col.normal)
    if t is C.Ellipse: return OEllipse(col.c, col.axes, col.radii)
    if t is C.ConvexHullVertices: return OHull(col.vertices)
    if t is C.MeshGraph:
        T = col.mesh2origin
        return OHull(col.vertices @ T[:3, :3].T + T[:3, 3])
    raise TypeError(t)
