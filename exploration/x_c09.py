import shim, warnings, sys, time
warnings.simplefilter('ignore')
import numpy as np
from distance3d import colliders as C, gjk
import gen, orc, place
from collections import Counter, defaultdict
seed = int(sys.argv[1]); rng = np.random.default_rng(seed); N = int(sys.argv[2])
PRIM = (C.Sphere, C.Capsule, C.Box, C.Ellipsoid, C.Cylinder)
worst = defaultdict(float); bad = []; cnt = Counter()
for it in range(N):
    sc = None if rng.random() < .5 else gen.logu(rng, 1e-2, 1e2)
    A = gen.make(rng, scale=sc); B = gen.make(rng, scale=sc)
    oA = orc.oracle_of(A); s = max(oA.scale(), orc.oracle_of(B).scale())
    mode = rng.choice(["gap", "touch", "overlap"])
    g = {"gap": gen.logu(rng, 1e-3, 10) * s, "touch": 0.0, "overlap": -gen.logu(rng, 1e-2, 0.5) * s}[mode]
    B, u = place.pair_at_gap(rng, A, B, g)
    oB = orc.oracle_of(B)
    L = max(1.0, oA.scale(), oB.scale(), np.linalg.norm(A.center() - B.center()), np.linalg.norm(A.center()), np.linalg.norm(B.center()))
    dj = gjk.gjk_distance(A, B)[0]   # jolt as reference for overlap mode (validated separately)
    true = g if g >= 0 else dj
    mixed = (type(A) in (C.Sphere, C.Capsule)) != (type(B) in (C.Sphere, C.Capsule)) or ((type(A) in (C.Sphere, C.Capsule) or type(B) in (C.Sphere, C.Capsule)) and not (type(A) in PRIM and type(B) in PRIM))
    runs = {"orig": lambda: gjk.gjk_distance_original(A, B)}
    for acc in (False, True):
        runs["nest%d" % acc] = (lambda acc=acc: max(gjk.gjk_nesterov_accelerated(A, B, use_nesterov_acceleration=acc)[1], 0.0))
        if type(A) in PRIM and type(B) in PRIM:
            runs["nestp%d" % acc] = (lambda acc=acc: max(gjk.gjk_nesterov_accelerated_primitives(A, B, use_nesterov_acceleration=acc)[1], 0.0))
    for name, f in runs.items():
        try: r = f()
        except Exception as e:
            cnt[(name, "EXC", type(e).__name__)] += 1; continue
        if name == "orig":
            d, a, b = r[0], r[1], r[2]
            e = max(abs(d - true), oA.dist(a), oB.dist(b), abs(np.linalg.norm(a - b) - d)) / L
        else:
            e = abs(r - true) / L
        key = name + ("/mixed" if (name.startswith("nest") and not name.startswith("nestp") and mixed) else "")
        worst[key] = max(worst[key], e); cnt[(key, "n")] += 1
        if e > 1e-3:
            cnt[(key, "BAD")] += 1
            if len(bad) < 60: bad.append((it, key, mode, type(A).__name__, type(B).__name__, "L=%.3g true=%.4g got=%s err/L=%.2e" % (L, true, r if not isinstance(r, tuple) else r[0], e)))
for k in sorted(worst): print(k, "%.2e" % worst[k])
for k in sorted(cnt): print(k, cnt[k])
for b in bad: print(b)
