import shim, warnings, sys, time, itertools
warnings.simplefilter('ignore')
import numpy as np
from distance3d import colliders as C, gjk, mpr, epa
from distance3d.gjk import _gjk_jolt
import gen, orc, place, mon
seed = int(sys.argv[1]) if len(sys.argv)>1 else 0
rng = np.random.default_rng(seed)
N = int(sys.argv[2]) if len(sys.argv)>2 else 300
def scenario(rng):
    m = rng.choice(["same", "copy", "nested", "lattice", "needle", "touch", "rand", "flatflat"])
    if m == "same":
        A = gen.make(rng); return m, A, A
    if m == "copy":
        A = gen.make(rng); return m, A, place.rebuild_at(A, np.zeros(3))
    if m == "nested":
        k = rng.choice(gen.KINDS); c = gen.center(rng)
        A = gen.make(rng, k, c=c, scale=1.0); B = gen.make(rng, rng.choice(gen.KINDS), c=c, scale=0.1)
        return m, A, B
    if m == "lattice":
        kA, kB = rng.choice(["box", "cylinder", "capsule", "sphere", "cone", "disk"], 2)
        def mk(k, c):
            R = orc.rand_rot(rng, rng.choice(["ident", "perm", "axis"])); T = orc.pose(R, c)
            s = lambda: float(rng.integers(1, 4))
            return {"box": lambda: C.Box(T, np.array([s(), s(), s()])), "cylinder": lambda: C.Cylinder(T, s(), s()),
                    "capsule": lambda: C.Capsule(T, s(), s()), "sphere": lambda: C.Sphere(np.ascontiguousarray(c), s()),
                    "cone": lambda: C.Cone(T, s(), s()), "disk": lambda: C.Disk(np.ascontiguousarray(c), s(), np.ascontiguousarray(R[:,2]))}[k]()
        return m, mk(kA, rng.integers(-3,4,3).astype(float)), mk(kB, rng.integers(-3,4,3).astype(float))
    if m == "needle":
        k = rng.choice(["box", "ellipsoid", "capsule", "cylinder", "cone"])
        T = orc.pose(orc.rand_rot(rng), gen.center(rng))
        big, small = gen.logu(rng, 1, 100), gen.logu(rng, 1e-2, 1e-1)
        A = {"box": lambda: C.Box(T, np.array([big, small, small][::rng.choice([1,-1])])), "ellipsoid": lambda: C.Ellipsoid(T, np.array([small, big, small])),
             "capsule": lambda: C.Capsule(T, small, big), "cylinder": lambda: C.Cylinder(T, *( (small, big) if rng.random()<.5 else (big, small))),
             "cone": lambda: C.Cone(T, *((small, big) if rng.random()<.5 else (big, small)))}[k]()
        B = gen.make(rng)
        if rng.random() < .5:
            B, _ = place.pair_at_gap(rng, A, B, rng.choice([0.0, 1e-3, -1e-3, 0.1]))
        return m, A, B
    if m == "touch":
        A = gen.make(rng); B = gen.make(rng); B, _ = place.pair_at_gap(rng, A, B, 0.0); return m, A, B
    if m == "flatflat":
        c = gen.center(rng); R = orc.rand_rot(rng)
        A = C.Disk(np.ascontiguousarray(c), gen.size(rng), np.ascontiguousarray(R[:,2]))
        off = R[:, 0] * rng.uniform(0, 3) + R[:,2] * rng.choice([0.0, 0.0, 1e-3, 0.5])
        B = gen.make(rng, rng.choice(["disk", "ellipse"]), c=c + off, rot=R if rng.random()<.7 else None)
        return m, A, B
    return m, gen.make(rng), gen.make(rng)
def _epa(a,b):
    d,pa,pb,simplex = gjk.gjk_distance_jolt(a,b)
    if d == 0.0:
        return epa.epa(simplex, a, b)[0]
    return None
def _nest(acc):
    def f(a,b):
        # Counted wrapper hides type() so unwrap for nesterov (type dispatch)
        return gjk.gjk_nesterov_accelerated(a._c, b._c, use_nesterov_acceleration=acc)[:2]
    return f
def _nestp(acc):
    def f(a,b):
        ok = (C.Sphere, C.Capsule, C.Box, C.Ellipsoid, C.Cylinder)
        if type(a._c) not in ok or type(b._c) not in ok: return None
        return gjk.gjk_nesterov_accelerated_primitives(a._c, b._c, use_nesterov_acceleration=acc)[:2]
    return f
fns = {
 "epa": _epa, "nest0": _nest(False), "nest1": _nest(True), "nestp0": _nestp(False), "nestp1": _nestp(True),
 "jolt_d": lambda a,b: gjk.gjk_distance_jolt(a,b)[0],
 "jolt_i": lambda a,b: gjk.gjk_intersection_jolt(a,b),
 "orig": lambda a,b: gjk.gjk_distance_original(a,b)[0],
 "libccd": lambda a,b: gjk.gjk_intersection_libccd(a,b),
 "mpr_i": lambda a,b: mpr.mpr_intersection(a,b),
 "mpr_p": lambda a,b: mpr.mpr_penetration(a,b)[:2],
}
stats = {}
bad = []
for it in range(N):
    m, A, B = scenario(rng)
    for fn, f in fns.items():
        a, b = mon.Counted(A), mon.Counted(B)
        t0 = time.time()
        try:
            r = f(a, b); err = None
        except Exception as e:
            r = None; err = type(e).__name__ + ":" + str(e)[:60]
        n = max(a.n, b.n)
        st = stats.setdefault(fn, [0, 0, 0])
        st[0] += 1; st[1] = max(st[1], n)
        fin = True
        if r is not None:
            vals = np.atleast_1d(np.array([x for x in np.atleast_1d(np.array(r, dtype=object)).ravel() if x is not None], dtype=float))
            fin = bool(np.all(np.isfinite(vals)))
        if err or n > 1000 or not fin:
            st[2] += 1
            bad.append((it, m, fn, gen.describe(A), gen.describe(B), n, err, None if fin else r))
for k, v in stats.items(): print(k, v)
from collections import Counter
print(Counter((b[2], (b[6] or "").split(":")[0], b[1]) for b in bad))
for b in bad[:25]: print(b)
