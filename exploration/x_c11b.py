import shim, warnings, sys, math
warnings.simplefilter('ignore')
import numpy as np
from distance3d import distance as D
from collections import Counter
rng = np.random.default_rng(0)
def unit(v): return v / np.linalg.norm(v)
cnt = Counter(); ex = {}
for it in range(3000):
    c = rng.normal(size=3); r = rng.uniform(0.2, 2); n = unit(rng.normal(size=3))
    a = np.eye(3)[np.argmin(np.abs(n))]; x = unit(np.cross(n, a)); y = np.cross(n, x)
    th = np.linspace(0, 2*np.pi, 20000, endpoint=False)
    P = c + r * (np.cos(th)[:, None] * x + np.sin(th)[:, None] * y)
    mode = rng.choice(["rand", "parallel_n", "inplane_dir", "through_center", "inplane_line"])
    lp = c + rng.normal(size=3) * r * rng.choice([0.3, 1, 3]); ld = unit(rng.normal(size=3))
    if mode == "parallel_n": ld = n.copy()
    if mode == "inplane_dir": ld = unit(np.cross(n, rng.normal(size=3)))
    if mode == "through_center": lp = c.copy()
    if mode == "inplane_line": ld = unit(np.cross(n, rng.normal(size=3))); lp = c + x * rng.normal() + y * rng.normal()
    v = P - lp; dl = np.linalg.norm(v - np.outer(v @ ld, ld), axis=1); ref = dl.min()
    d, p1, p2 = D.line_to_circle(np.ascontiguousarray(lp), np.ascontiguousarray(ld), c, r, n)
    e = (d - ref) / max(1, r, np.linalg.norm(c), np.linalg.norm(lp))
    k = (mode, "BAD" if e > 5e-3 else ("meh" if e > 1e-4 else "ok"))
    cnt[k] += 1
    if k not in ex: ex[k] = (d, ref)
for k in sorted(cnt): print(k, cnt[k], ex[k])
