import shim, warnings, sys
warnings.simplefilter('ignore')
import numpy as np
import distance3d.hydroelastic_contact as hc
from distance3d.utils import transform_points
import gen, orc
rng = np.random.default_rng(1)
def bodies(T1, T2, kind=("sphere", "box")):
    def mk(k, T):
        if k == "sphere":
            b = hc.RigidBody.make_sphere(np.zeros(3), 0.5, 2); b.body2origin_ = T.copy(); return b
        if k == "box": return hc.RigidBody.make_box(T.copy(), np.array([1.0, 0.8, 0.6]))
        if k == "cube": return hc.RigidBody.make_cube(T.copy(), 1.0)
        if k == "cyl": return hc.RigidBody.make_cylinder(T.copy(), 0.4, 1.0, 0.2)
        if k == "caps": return hc.RigidBody.make_capsule(T.copy(), 0.3, 0.6, 0.2)
        if k == "ell": return hc.RigidBody.make_ellipsoid(T.copy(), np.array([0.5, 0.4, 0.3]), 2)
    return mk(kind[0], T1), mk(kind[1], T2)
def run(T1, T2, kind):
    b1, b2 = bodies(T1, T2, kind)
    return hc.contact_forces(b1, b2)
for trial in range(8):
    kind = tuple(rng.choice(["sphere", "box", "cube", "cyl", "caps", "ell"], 2))
    R1, R2 = orc.rand_rot(rng, "haar"), orc.rand_rot(rng, "haar" if trial % 2 else "ident")
    t1 = rng.normal(size=3); t2 = t1 + orc.rand_rot(rng, "haar")[:, 0] * 0.6
    T1, T2 = orc.pose(R1, t1), orc.pose(R2, t2)
    i, w12, w21 = run(T1, T2, kind)
    j, v21, v12 = run(T2, T1, kind[::-1])
    G = orc.pose(orc.rand_rot(rng, "haar"), rng.normal(size=3))
    k, u12, u21 = run(G @ T1, G @ T2, kind)
    f = max(np.linalg.norm(w12[:3]), 1e-12)
    print(kind, "R2=%s" % ("gen" if trial % 2 else "I"), "inter", i, j, k, "|f|=%.3g" % f,
          "act-react %.2e" % (np.linalg.norm(w12[:3] + w21[:3]) / f),
          "swap %.2e" % (np.linalg.norm(w12[:3] - v12[:3]) / f),
          "frame %.2e" % (np.linalg.norm(G[:3, :3] @ w12[:3] - u12[:3]) / f))
# use_aabb_trees
b1, b2 = bodies(orc.pose(np.eye(3), np.zeros(3)), orc.pose(np.eye(3), np.array([0, 0, 0.7])), ("sphere", "box"))
try:
    cs = hc.find_contact_surface(b1, b2, use_aabb_trees=True); print("trees ok", len(cs.intersecting_tetrahedra1))
except Exception as e: print("use_aabb_trees:", type(e).__name__, e)
# RigidBody.aabb in world frame?
b = hc.RigidBody.make_box(orc.pose(orc.rand_rot(rng, "haar"), np.array([5., 0, 0])), np.ones(3))
print("aabb", b.aabb().tolist(), "world verts range", transform_points(b.body2origin_, b.vertices_).min(0), transform_points(b.body2origin_, b.vertices_).max(0))
