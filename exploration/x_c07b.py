import shim, warnings, sys
warnings.simplefilter('ignore')
import numpy as np
from scipy.spatial import ConvexHull
from distance3d import colliders as C, gjk, epa
import gen, orc, place
from collections import Counter
exec(open('x_c07.py').read().split("cnt = Counter()")[0].split("seed = int")[0])
def verts(col):
    if type(col) is C.MeshGraph:
        T = col.mesh2origin; return col.vertices @ T[:3,:3].T + T[:3,3]
    return col.vertices
def exact_depth(A, B):
    VA, VB = verts(A), verts(B)
    M = (VA[:, None, :] - VB[None, :, :]).reshape(-1, 3)
    ch = ConvexHull(M); offs = ch.equations[:, 3]
    if np.any(offs > 0): return None
    return -np.max(offs)
rng = np.random.default_rng(5); cnt = Counter()
for it in range(1500):
    kA, kB = rng.choice(["box", "hull", "mesh"], 2)
    A = gen.make(rng, kA); B = gen.make(rng, kB)
    oA = orc.oracle_of(A); oB = orc.oracle_of(B)
    g = -gen.logu(rng, 1e-3, 0.5) * min(oA.scale(), oB.scale())
    B, u = place.pair_at_gap(rng, A, B, g)
    depth = exact_depth(A, B)
    if depth is None: continue
    d, a, b, simplex = gjk.gjk(A, B)
    if d != 0.0: continue
    simplex = simplex.copy()
    orient = np.sign(np.dot(simplex[1]-simplex[0], np.cross(simplex[2]-simplex[0], simplex[3]-simplex[0])))
    # does the origin lie strictly inside the simplex?
    try:
        lam = np.linalg.solve(np.vstack([simplex.T, np.ones(4)]), np.array([0,0,0,1.0]))
        inside = bool(np.all(lam > -1e-12))
    except Exception: inside = None
    for flip in (False, True):
        sx = simplex.copy()
        if flip: sx[[1, 2]] = sx[[2, 1]]
        try:
            mtv, faces, success = epa.epa(sx, A, B)
        except AssertionError:
            cnt[("assert", flip, orient if not flip else -orient, inside)] += 1; continue
        t = np.linalg.norm(mtv)
        ok = abs(t - depth) <= 1e-6 * max(1, oA.scale(), oB.scale())
        cnt[("ok" if ok else "BAD", "succ" if success else "nosucc", "flip" if flip else "asis", (orient if not flip else -orient), inside)] += 1
for k in sorted(cnt, key=str): print(k, cnt[k])
