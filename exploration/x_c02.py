import shim, warnings, sys, time
warnings.simplefilter('ignore')
import numpy as np
from distance3d import colliders as C, gjk, mpr
import gen, orc, place
from collections import Counter
seed = int(sys.argv[1]); rng = np.random.default_rng(seed); N = int(sys.argv[2])
PRIM = (C.Sphere, C.Capsule, C.Box, C.Ellipsoid, C.Cylinder)
tests = {
 "jolt": lambda a,b: gjk.gjk_intersection_jolt(a,b),
 "libccd": lambda a,b: gjk.gjk_intersection_libccd(a,b),
 "mpr": lambda a,b: mpr.mpr_intersection(a,b),
 "nest": lambda a,b: gjk.gjk_nesterov_accelerated_intersection(a,b),
 "nestp": lambda a,b: gjk.gjk_nesterov_accelerated_primitives_intersection(a,b) if type(a) in PRIM and type(b) in PRIM else None,
 "dist": lambda a,b: gjk.gjk_distance(a,b)[0] == 0.0,
}
def inradius_point(col, o):
    """a point of the collider and a lower bound of its depth (inscribed ball radius around it)."""
    t = type(col)
    if t is C.Margin:
        p, r = inradius_point(col.collider, o.b); return p, r + col.margin
    if t is C.Sphere: return col.c, col.radius
    if t is C.Box: return col.center(), 0.5 * min(col.size)
    if t is C.Capsule: return col.center(), col.radius
    if t is C.Cylinder: return col.center(), min(col.radius, 0.5 * col.length)
    if t is C.Ellipsoid: return col.center(), min(col.radii)
    if t is C.Cone:
        # incircle of the triangle cross section
        r, h = col.radius, col.height
        rin = r * h / (r + np.hypot(r, h))
        return col.cone2origin[:3, 3] + rin * col.cone2origin[:3, 2], rin
    if t in (C.Disk, C.Ellipse): return col.center(), 0.0
    # hull: centroid depth = min facet distance
    V = o.V
    from scipy.spatial import ConvexHull
    try:
        ch = ConvexHull(V)
    except Exception:
        return V.mean(axis=0), 0.0
    c = V[ch.vertices].mean(axis=0)
    return c, float(np.min(-(ch.equations[:, :3] @ c + ch.equations[:, 3])))
cnt = Counter(); bad = []
for it in range(N):
    sc = None if rng.random() < .5 else gen.logu(rng, 1e-2, 1e2)
    A = gen.make(rng, scale=sc); B = gen.make(rng, scale=sc)
    if rng.random() < .1: A = C.Margin(A, gen.size(rng, 1e-2, 1))
    oA = orc.oracle_of(A); oB0 = orc.oracle_of(B)
    s = max(oA.scale(), oB0.scale())
    mode = rng.choice(["gap", "deep"])
    if mode == "gap":
        L0 = max(1.0, s, np.linalg.norm(A.center()))
        g = gen.logu(rng, 1.0, 1e3) * 1e-3 * L0 * 1.5
        B, u = place.pair_at_gap(rng, A, B, g)
        truth = False
    else:
        pA, rA = inradius_point(A, oA); pB, rB = inradius_point(B, oB0)
        if min(rA, rB) <= 0: continue
        # put B's deep point within A's deep ball
        off = rng.normal(size=3); off *= rng.uniform(0, 0.5) * rA / np.linalg.norm(off)
        B = place.rebuild_at(B, pA + off - pB)
        depth = min(rA - np.linalg.norm(off), rB)   # ball radius around the common point pA+off inside both
        truth = True
    oB = orc.oracle_of(B)
    L = max(1.0, oA.scale(), oB.scale(), np.linalg.norm(A.center() - B.center()), np.linalg.norm(A.center()), np.linalg.norm(B.center()))
    if mode == "gap" and g < 1e-3 * L: continue
    if mode == "deep" and depth < 1e-3 * L: continue
    for name, f in tests.items():
        try:
            r = f(A, B)
        except Exception as e:
            r = "EXC:" + type(e).__name__
        if r is None: continue
        ok = (r == truth) if not isinstance(r, str) else False
        cnt[(name, mode, "ok" if ok else ("exc" if isinstance(r, str) else "WRONG"))] += 1
        if not ok:
            bad.append((it, name, mode, gen.describe(A), gen.describe(B), r, "L=%.3g g/depth=%.3g" % (L, g if mode=="gap" else depth)))
for k in sorted(cnt): print(k, cnt[k])
for b in bad[:40]: print(b)
