import shim, warnings, sys
warnings.simplefilter('ignore')
import numpy as np
from distance3d import colliders as C, gjk
import gen, orc, place
from collections import Counter
rng = np.random.default_rng(3); cnt = Counter()
d = np.array([0.3, -0.5, 0.8])
for kind in gen.KINDS:
    if kind == "hull": continue
    for trial in range(20):
        col = gen.make(rng, kind)
        if trial % 2: col = C.Margin(col, 0.1)
        stack = np.stack([orc.pose(orc.rand_rot(rng), gen.center(rng)) for _ in range(3)])
        for src in ("fresh", "stack"):
            T = stack[1].copy() if src == "fresh" else stack[1]
            try:
                col.update_pose(T)
                base = col.collider if isinstance(col, C.Margin) else col
                # fresh collider at the same pose
                if kind == "sphere": ref = C.Sphere(np.ascontiguousarray(T[:3,3]), base.radius)
                elif kind == "disk": ref = C.Disk(np.ascontiguousarray(T[:3,3]), base.radius, np.ascontiguousarray(T[:3,2]))
                elif kind == "ellipse": ref = C.Ellipse(np.ascontiguousarray(T[:3,3]), np.ascontiguousarray(T[:3,:2].T), base.radii)
                elif kind == "box": ref = C.Box(T.copy(), base.size)
                elif kind == "capsule": ref = C.Capsule(T.copy(), base.radius, base.height)
                elif kind == "cylinder": ref = C.Cylinder(T.copy(), base.radius, base.length)
                elif kind == "cone": ref = C.Cone(T.copy(), base.radius, base.height)
                elif kind == "ellipsoid": ref = C.Ellipsoid(T.copy(), base.radii)
                elif kind == "mesh": ref = C.MeshGraph(T.copy(), base.vertices, base.triangles)
                if isinstance(col, C.Margin): ref = C.Margin(ref, col.margin)
                ok = True
                for what, f in (("support", lambda c: c.support_function(d)), ("aabb", lambda c: c.aabb()), ("center", lambda c: c.center()), ("first", lambda c: c.first_vertex()), ("gjk", lambda c: gjk.gjk(c, C.Sphere(np.zeros(3), 0.1))[0]), ("c2o", lambda c: c.collider2origin())):
                    try:
                        a, b = f(col), f(ref)
                        if not np.allclose(a, b, atol=1e-9, equal_nan=True): cnt[(kind, src, what, "DIFF")] += 1
                        else: cnt[(kind, src, what, "ok")] += 1
                    except Exception as e:
                        cnt[(kind, src, what, type(e).__name__)] += 1
            except Exception as e:
                cnt[(kind, src, "update", type(e).__name__)] += 1
for k in sorted(cnt):
    if k[3] != "ok": print(k, cnt[k])
print(sum(v for k, v in cnt.items() if k[3] == "ok"), "ok")
