import numpy as np
class Counted:
    """Wrap a collider, counting and recording support queries (runtime monitor)."""
    def __init__(self, col, limit=5000):
        self.__dict__['_c'] = col; self.__dict__['n'] = 0; self.__dict__['limit'] = limit
        self.__dict__['pts'] = []
    def support_function(self, d):
        self.__dict__['n'] += 1
        if self.n > self.limit:
            raise TimeoutError("support budget exceeded")
        p = self._c.support_function(d)
        self.pts.append(np.array(p))
        return p
    def __getattr__(self, k): return getattr(self._c, k)
