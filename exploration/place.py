import numpy as np
from distance3d import colliders as C
import gen, orc

def rebuild_at(col, shift):
    """return a new collider = col translated by shift"""
    t = type(col)
    if t is C.Margin: return C.Margin(rebuild_at(col.collider, shift), col.margin)
    if t is C.Sphere: return C.Sphere(np.ascontiguousarray(col.c + shift), col.radius)
    if t is C.Disk: return C.Disk(np.ascontiguousarray(col.c + shift), col.radius, col.normal)
    if t is C.Ellipse: return C.Ellipse(np.ascontiguousarray(col.c + shift), col.axes, col.radii)
    if t is C.ConvexHullVertices: return C.ConvexHullVertices(np.ascontiguousarray(col.vertices + shift))
    T = col.collider2origin().copy(); T[:3, 3] += shift
    if t is C.Box: return C.Box(T, col.size)
    if t is C.Capsule: return C.Capsule(T, col.radius, col.height)
    if t is C.Cylinder: return C.Cylinder(T, col.radius, col.length)
    if t is C.Cone: return C.Cone(T, col.radius, col.height)
    if t is C.Ellipsoid: return C.Ellipsoid(T, col.radii)
    if t is C.MeshGraph: return C.MeshGraph(T, col.vertices, col.triangles)
    raise TypeError(t)

def pair_at_gap(rng, A, B, g, u=None):
    """translate B so that the exact distance is g (g>=0), or depth along u is -g."""
    if u is None:
        u = rng.normal(size=3); u /= np.linalg.norm(u)
    pA = A.support_function(np.ascontiguousarray(u))
    pB = B.support_function(np.ascontiguousarray(-u))
    shift = pA + g * u - pB
    return rebuild_at(B, shift), u
