import numpy
if not hasattr(numpy, "row_stack"):
    numpy.row_stack = numpy.vstack
