import shim, warnings, sys, math
warnings.simplefilter('ignore')
import numpy as np
from distance3d import distance as D
import gen, orc
from collections import Counter, defaultdict
seed = int(sys.argv[1]); rng = np.random.default_rng(seed); N = int(sys.argv[2])
def unit(v): return v / np.linalg.norm(v)
def c_(x): return np.ascontiguousarray(x, dtype=float)
def sz(): return float(rng.choice([rng.uniform(0.2, 2), gen.logu(rng, 0.2, 100)]))
def ctr(): return c_(gen.center(rng))
def dirn(R=None):
    m = rng.choice(["rand", "axis", "diag"])
    if m == "axis": e = np.zeros(3); e[rng.integers(3)] = rng.choice([-1., 1.]); return e
    if m == "diag": return unit(rng.choice([-1., 0., 1.], 3) + np.array([1e-300, 0, 0]))
    return unit(rng.normal(size=3))
worst = defaultdict(float); cnt = Counter(); bad = []
def rec(name, err, L, info):
    worst[name] = max(worst[name], err / L); cnt[(name, "n")] += 1
    if err / L > 1e-6:
        cnt[(name, "BAD")] += 1
        if sum(1 for b in bad if b[0] == name) < 4: bad.append((name, "err/L=%.2e" % (err / L), info))
def circle_pts(c, r, n, K=4000):
    x, y = orc_basis(n); th = np.linspace(0, 2 * np.pi, K, endpoint=False)
    return c + r * (np.cos(th)[:, None] * x + np.sin(th)[:, None] * y), th, x, y
def orc_basis(n):
    a = np.eye(3)[np.argmin(np.abs(n))]; x = unit(np.cross(n, a)); y = np.cross(n, x); return x, y
def dist_pt_line(P, p, d): v = P - p; return np.linalg.norm(v - np.outer(v @ d, d), axis=1)
def dist_pt_seg(P, s, e):
    d = e - s; t = np.clip((P - s) @ d / (d @ d), 0, 1); return np.linalg.norm(P - (s + np.outer(t, d)), axis=1)
def refine(f, th0, w):
    lo, hi = th0 - w, th0 + w
    for _ in range(80):
        m1, m2 = lo + (hi - lo) / 3, hi - (hi - lo) / 3
        if f(m1) < f(m2): hi = m2
        else: lo = m1
    return f(0.5 * (lo + hi))
for it in range(N):
    c, r, n = ctr(), sz(), dirn()
    P, th, x, y = circle_pts(c, r, n)
    cp = lambda t: c + r * (math.cos(t) * x + math.sin(t) * y)
    # --- line_to_circle
    lp = c + rng.normal(size=3) * r * rng.choice([0.3, 1, 3]); ld = dirn()
    if rng.random() < .2: ld = n.copy()          # parallel to normal
    if rng.random() < .2: ld = unit(np.cross(n, dirn() + 1e-9))  # in-plane direction
    if rng.random() < .15: lp = c.copy()
    L = max(1, r, np.linalg.norm(c), np.linalg.norm(lp))
    dl = dist_pt_line(P, lp, ld); i = np.argmin(dl)
    ref = refine(lambda t: dist_pt_line(cp(t)[None], lp, ld)[0], th[i], 2 * np.pi / len(th))
    try:
        d, p1, p2 = D.line_to_circle(c_(lp), c_(ld), c, r, c_(n))
        rec("line_to_circle", max(0, d - ref), L, (lp.tolist(), ld.tolist(), c.tolist(), r, n.tolist(), d, ref))
        if (d - ref) / L > 5e-3: print("LTC", (d-ref)/L, repr((lp.tolist(), ld.tolist(), c.tolist(), r, n.tolist(), float(d), float(ref))))
        rec("line_to_circle:cons", abs(np.linalg.norm(p1 - p2) - d), L, None)
    except Exception as e: cnt[("line_to_circle", type(e).__name__)] += 1
    # --- line_segment_to_circle
    s0 = c + rng.normal(size=3) * r * rng.choice([0.3, 1, 3]); s1 = s0 + dirn() * sz()
    ds = dist_pt_seg(P, s0, s1); i = np.argmin(ds)
    ref = refine(lambda t: dist_pt_seg(cp(t)[None], s0, s1)[0], th[i], 2 * np.pi / len(th))
    L = max(1, r, np.linalg.norm(c), np.linalg.norm(s0), np.linalg.norm(s1))
    try:
        d, p1, p2 = D.line_segment_to_circle(c_(s0), c_(s1), c, r, c_(n))
        rec("line_segment_to_circle", max(0, d - ref), L, (s0.tolist(), s1.tolist(), c.tolist(), r, n.tolist(), d, ref))
    except Exception as e: cnt[("line_segment_to_circle", type(e).__name__)] += 1
    # --- point_to_circle
    p = c + rng.normal(size=3) * r * rng.choice([1e-4, 0.3, 1, 3])
    if rng.random() < .2: p = c + n * rng.normal() * r
    v = p - c; z = v @ n; rho = np.linalg.norm(v - z * n); ref = math.hypot(rho - r, z)
    L = max(1, r, np.linalg.norm(c), np.linalg.norm(p))
    d, q = D.point_to_circle(c_(p), c, r, c_(n))
    rec("point_to_circle", abs(d - ref), L, (p.tolist(), c.tolist(), r, n.tolist(), d, ref))
    rec("point_to_circle:cons", abs(np.linalg.norm(p - q) - d), L, (p.tolist(), c.tolist(), r, n.tolist(), d))
    # --- disk_to_disk
    c2 = c + rng.normal(size=3) * r * rng.choice([0.3, 1, 3]); r2 = sz(); n2 = dirn()
    m = rng.choice(["rand", "par", "copl", "perp"])
    if m == "par": n2 = n.copy() * rng.choice([-1, 1])
    if m == "copl": n2 = n.copy(); c2 = c + (x * rng.normal() + y * rng.normal()) * r * 2
    if m == "perp": n2 = x.copy()
    o1, o2 = orc.ODisk(c, r, n), orc.ODisk(c2, r2, n2)
    # reference: sample disk1 densely (rings) + local refine -> upper bound; use as reference (sampling error small)
    best = 1e300
    for rr in np.linspace(0, 1, 41):
        Q = c + rr * (P - c)
        v = Q - c2; zz = v @ n2; rh = np.linalg.norm(v - np.outer(zz, n2), axis=1)
        dd = np.hypot(np.maximum(rh - r2, 0), zz); best = min(best, dd.min())
    L = max(1, r, r2, np.linalg.norm(c), np.linalg.norm(c2))
    try:
        d, p1, p2 = D.disk_to_disk(c, r, c_(n), c_(c2), r2, c_(n2))
        rec("disk_to_disk/" + m, max(0, d - best), L, (c.tolist(), r, n.tolist(), c2.tolist(), r2, n2.tolist(), d, best))
        # too small: d < true; lower bound check through membership consistency
        rec("disk_to_disk:feas/" + m, max(o1.dist(p1), o2.dist(p2), abs(np.linalg.norm(p1 - p2) - d)), L, (c.tolist(), r, n.tolist(), c2.tolist(), r2, n2.tolist(), d, best))
    except Exception as e: cnt[("disk_to_disk", type(e).__name__)] += 1
for k in sorted(worst): print("%-34s %.2e" % (k, worst[k]), cnt[(k, "BAD")], "/", cnt[(k, "n")])
print({k: v for k, v in cnt.items() if k[1] not in ("n", "BAD")})
for b in bad: print(b)
