import shim, warnings, sys
warnings.simplefilter('ignore')
import numpy as np
from distance3d import colliders as C, containment as K
import gen, orc
rng = np.random.default_rng(int(sys.argv[1]) if len(sys.argv)>1 else 0)
worst = {}
N = int(sys.argv[2]) if len(sys.argv)>2 else 300
for it in range(N):
    col = gen.make(rng)
    if rng.random() < .25:
        col = C.Margin(col, gen.size(rng, 1e-2, 1))
    o = orc.oracle_of(col)
    L = max(1.0, o.scale(), np.linalg.norm(col.center()))
    name = type(col).__name__ + ('+' + type(col.collider).__name__ if isinstance(col, C.Margin) else '')
    bb = col.aabb()
    w = worst.setdefault(name, [0, 0, 0, None])
    if not np.all(np.isfinite(bb)):
        w[2] += 1; continue
    for i in range(3):
        e = np.zeros(3); e[i] = 1
        hi = o.h(e); lo = -o.h(-e)
        under = max(hi - bb[i,1], bb[i,0] - lo) / L   # >0: box too small
        over = max(bb[i,1] - hi, lo - bb[i,0]) / L    # >0: box too large
        if under > w[0]:
            w[0] = under; w[3] = (bb.tolist(), [lo,hi], i)
        w[1] = max(w[1], over)
for k, v in sorted(worst.items()):
    print("%-28s too_small=%.2e too_large=%.2e nonfinite=%d" % (k, v[0], v[1], v[2]))
