import shim, warnings, sys
warnings.simplefilter('ignore')
import numpy as np
from scipy.spatial import ConvexHull
import distance3d.hydroelastic_contact as hc
from distance3d.hydroelastic_contact import _tetra_mesh_creation as M
import orc
rng = np.random.default_rng(0)
def check(name, V, T, P, oracle, inr):
    pts = V[T]; e = pts[:, 1:] - pts[:, :1]
    sv = np.einsum('ij,ij->i', np.cross(e[:, 0], e[:, 1]), e[:, 2]) / 6.0
    vol = np.abs(sv).sum(); hull = ConvexHull(V).volume
    out = max(oracle.dist(v) for v in V)
    onb = np.array([oracle.dist(v * (1 + 1e-9) ) > 0 or True for v in V])
    medial = P > 0
    print("%-28s ntet=%4d minvol=%.2e  sum/hull-1=%.1e  outside=%.1e  pot:{%s} inr=%.4g unused_verts=%d" % (
        name, len(T), np.abs(sv).min(), vol / hull - 1, out, ",".join("%.4g" % x for x in sorted(set(np.round(P, 12)))), inr, len(V) - len(np.unique(T))))
I = np.eye(4)
for r, o in ((1.0, 0), (0.01, 2), (100.0, 3)):
    check("sphere r=%g o=%d" % (r, o), *M.make_tetrahedral_sphere(r, o), orc.OSphere(np.zeros(3), r), r)
for radii in ([1, 2, 3.0], [0.01, 100, 1.0]):
    check("ellipsoid %s" % radii, *M.make_tetrahedral_ellipsoid(np.array(radii), 2), orc.OEllipsoid(I, radii), min(radii))
check("cube 2", *M.make_tetrahedral_cube(2.0), orc.OBox(I, [2, 2, 2]), 1)
for size in ([1, 2, 3.0], [1, 1, 3.0], [2, 1, 1.0], [1, 1, 1.0], [0.01, 100, 1.0], [1, 1 + 1e-15, 2]):
    check("box %s" % size, *M.make_tetrahedral_box(np.array(size)), orc.OBox(I, size), min(size) / 2)
for r, l, h in ((1, 4, .5), (1, 2, .5), (1, 1, .5), (1, 2 + 1e-15, .5), (0.01, 100, .01), (100, 0.01, 50), (1, 3, 10.0)):
    check("cyl r=%g l=%g h=%g" % (r, l, h), *M.make_tetrahedral_cylinder(r, l, h), orc.OCylinder(I, r, l), min(r, l / 2))
for r, l, h in ((1, 2, .5), (0.5, 0.01, .3), (1, 100, 1.0), (1, 1, 10.0)):
    check("caps r=%g h=%g res=%g" % (r, l, h), *M.make_tetrahedral_capsule(r, l, h), orc.OCapsule(I, r, l), r)
