import shim, warnings, sys
warnings.simplefilter('ignore')
import numpy as np
from distance3d import colliders as C
import gen, orc
rng = np.random.default_rng(int(sys.argv[1]) if len(sys.argv)>1 else 0)
def dirs(rng, col):
    out = []
    for _ in range(6):
        d = rng.normal(size=3); out.append(d)
    for e in np.eye(3):
        out += [e.copy(), -e]
    out += [np.array([1.,1,0]), np.array([0,-1.,1]), np.array([1.,0,-1]), np.array([1.,1,1])]
    # directions aligned with the shape axes
    T = col.collider2origin() if not isinstance(col, C.Margin) else col.collider.collider2origin()
    for i in range(3):
        out += [T[:3,i].copy(), -T[:3,i]]
        out += [T[:3,i] + T[:3,(i+1)%3], T[:3,i]-T[:3,(i+1)%3]]
    return [np.ascontiguousarray(d * 10**rng.uniform(-3,3)) if rng.random()<.3 else np.ascontiguousarray(d) for d in out]
worst = {}
N = int(sys.argv[2]) if len(sys.argv)>2 else 300
for it in range(N):
    col = gen.make(rng)
    if rng.random() < .25:
        col = C.Margin(col, gen.size(rng, 1e-2, 1))
    o = orc.oracle_of(col)
    L = max(1.0, o.scale(), np.linalg.norm(col.center()))
    name = gen.describe(col).split('(')[0] + ('+' + type(col.collider).__name__ if isinstance(col, C.Margin) else '')
    for d in dirs(rng, col):
        try:
            p = col.support_function(d)
        except Exception as e:
            print("EXC", name, type(e).__name__, str(e)[:100]); break
        u = d / np.linalg.norm(d)
        gap = (o.h(u) - p @ u) / L
        mem = o.dist(p) / L
        k = name
        w = worst.setdefault(k, [0, 0, 0])
        w[0] = max(w[0], gap); w[1] = max(w[1], -gap); w[2] = max(w[2], mem)
    for nm, p in (("first_vertex", col.first_vertex()), ("center", col.center())):
        mem = o.dist(np.asarray(p, float)) / L
        w = worst.setdefault(name + ":" + nm, [0,0,0]); w[2] = max(w[2], mem)
for k, v in sorted(worst.items()):
    print("%-32s gap_under=%.2e gap_over=%.2e notmember=%.2e" % (k, *v))
