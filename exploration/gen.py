import numpy as np
from distance3d import colliders as C
from distance3d.mesh import make_convex_mesh
from orc import rand_rot, pose

KINDS = ["sphere", "ellipsoid", "capsule", "cylinder", "cone", "box", "disk", "ellipse", "mesh", "hull"]


def logu(rng, lo, hi):
    return float(10 ** rng.uniform(np.log10(lo), np.log10(hi)))


def size(rng, smin=1e-2, smax=1e2):
    m = rng.choice(["unit", "log", "round"], p=[.5, .35, .15])
    if m == "unit":
        return float(rng.uniform(0.2, 2.0))
    if m == "round":
        return float(rng.choice([0.01, 0.1, 0.5, 1.0, 2.0, 10.0, 100.0]))
    return logu(rng, smin, smax)


def center(rng, far=False):
    m = rng.choice(["near", "mid", "far", "lattice"], p=[.45, .25, .1 if not far else .3, .2 if not far else 0.0])
    if m == "near":
        return rng.normal(size=3)
    if m == "mid":
        return rng.uniform(-10, 10, size=3)
    if m == "far":
        v = rng.normal(size=3); v /= np.linalg.norm(v)
        return v * rng.uniform(100, 1000)
    return rng.integers(-3, 4, size=3).astype(float)


def make(rng, kind=None, c=None, scale=None, rot=None):
    kind = kind or rng.choice(KINDS)
    c = center(rng) if c is None else np.array(c, float)
    R = rand_rot(rng) if rot is None else rot
    T = pose(R, c)
    s = (lambda: size(rng)) if scale is None else (lambda: float(scale * rng.uniform(0.5, 1.5)))
    if kind == "sphere":
        return C.Sphere(np.ascontiguousarray(c), s())
    if kind == "ellipsoid":
        return C.Ellipsoid(T, np.array([s(), s(), s()]))
    if kind == "capsule":
        return C.Capsule(T, s(), s())
    if kind == "cylinder":
        return C.Cylinder(T, s(), s())
    if kind == "cone":
        return C.Cone(T, s(), s())
    if kind == "box":
        return C.Box(T, np.array([s(), s(), s()]))
    if kind == "disk":
        return C.Disk(np.ascontiguousarray(c), s(), np.ascontiguousarray(R[:, 2]))
    if kind == "ellipse":
        return C.Ellipse(np.ascontiguousarray(c), np.ascontiguousarray(R[:, :2].T), np.array([s(), s()]))
    if kind in ("mesh", "hull"):
        n = int(rng.integers(4, 30))
        V = rng.normal(size=(n, 3)) * np.array([s(), s(), s()])
        if kind == "hull":
            return C.ConvexHullVertices(np.ascontiguousarray(V @ R.T + c))
        tri = make_convex_mesh(V)
        return C.MeshGraph(T, np.ascontiguousarray(V), tri)
    raise ValueError(kind)


def describe(col):
    t = type(col).__name__
    if t == "Margin":
        return "Margin(%s,%g)" % (describe(col.collider), col.margin)
    return t
