import shim, warnings, sys, time
warnings.simplefilter('ignore')
import numpy as np
from distance3d import colliders as C, gjk
import gen, orc, place
rng = np.random.default_rng(1)
for it in range(28):
    sc = None if rng.random() < .5 else gen.logu(rng, 1e-2, 1e2)
    A = gen.make(rng, scale=sc)
    B = gen.make(rng, scale=sc)
    if rng.random() < .15: A = C.Margin(A, gen.size(rng, 1e-2, 1))
    if rng.random() < .15: B = C.Margin(B, gen.size(rng, 1e-2, 1))
    oA = orc.oracle_of(A)
    mode = rng.choice(["free", "gap", "touch", "overlap"])
    if mode != "free":
        s = max(oA.scale(), orc.oracle_of(B).scale())
        g = {"gap": gen.logu(rng, 1e-4, 10) * s, "touch": 0.0, "overlap": -gen.logu(rng, 1e-4, 0.5) * s}[mode]
        B, u = place.pair_at_gap(rng, A, B, g)
print(type(A), type(B), mode, g)
print(A.c, A.axes, A.radii); print(B.c, B.radius, B.normal)
d,a,b,_ = gjk.gjk(A,B)
print("gjk", d, a, b)
print("iters", gjk._gjk_jolt.gjk_distance_jolt_iterations(A,B))
print("orig", gjk.gjk_distance_original(A,B)[:3])
# brute force: sample ellipse boundary+interior, distance to disk oracle
oB = orc.oracle_of(B)
best = 1e9
for th in np.linspace(0, 2*np.pi, 20001):
    for rr in (1.0, 0.999, 0.99, 0.9, 0.5):
        p = A.c + rr*(A.radii[0]*np.cos(th)*A.axes[0] + A.radii[1]*np.sin(th)*A.axes[1])
        best = min(best, oB.dist(p))
print("brute", best)
