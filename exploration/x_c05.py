import shim, warnings, sys
warnings.simplefilter('ignore')
import numpy as np
from distance3d.aabb_tree import AabbTree
rng = np.random.default_rng(int(sys.argv[1]))
def rbox(rng, lattice):
    if lattice:
        lo = rng.integers(-3, 4, 3).astype(float); sz = rng.integers(0, 3, 3).astype(float)
    else:
        lo = rng.normal(size=3) * 3; sz = rng.exponential(1.0, 3) * rng.choice([0, 1, 1, 1], 3)
    return np.stack([lo, lo + sz], axis=1)
def ov(a, b):
    return bool(np.all(a[:, 0] <= b[:, 1]) and np.all(a[:, 1] >= b[:, 0]))
from collections import Counter
res = Counter()
examples = {}
for it in range(int(sys.argv[2])):
    lattice = rng.random() < .5
    tree = AabbTree(); boxes = []; datas = []
    nb = rng.integers(1, 5)
    modes = []
    fail = None
    for b in range(nb):
        n = int(rng.choice([0, 1, 1, 2, 3, 5, 8, 20]))
        mode = rng.choice(["none", "sort", "shuffle", "single"])
        modes.append((n, str(mode)))
        bs = [rbox(rng, lattice) for _ in range(n)]
        ds = ["d%d_%d" % (b, i) for i in range(n)]
        try:
            if mode == "single":
                for x, d in zip(bs, ds): tree.insert_aabb(x, d)
            else:
                tree.insert_aabbs(np.array(bs).reshape(-1, 3, 2), ds, pre_insertion_methode=str(mode))
        except Exception as e:
            fail = "insert:" + type(e).__name__; break
        boxes += bs; datas += ds
    if fail is None and len(boxes) > 0:
        for q in range(5):
            qb = rbox(rng, lattice)
            exp = sorted(d for x, d in zip(boxes, datas) if ov(x, qb))
            try:
                _, idx = tree.overlaps_aabb(qb)
                got = sorted(tree.external_data_list[int(i)] for i in idx)
            except Exception as e:
                fail = "query:" + type(e).__name__; break
            if got != exp:
                fail = "mismatch missing=%d spurious=%d" % (len(set(exp) - set(got)), len(set(got) - set(exp))); break
    key = (fail.split(" ")[0] if fail else "ok", tuple(sorted(set(m for _, m in modes))) if fail else ())
    res[key] += 1
    examples.setdefault(key, (modes, fail))
for k, v in res.most_common(): print(v, k, examples[k])
