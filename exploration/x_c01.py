import shim, warnings, sys, time
warnings.simplefilter('ignore')
import numpy as np
from distance3d import colliders as C, gjk
import gen, orc, place
seed = int(sys.argv[1]) if len(sys.argv)>1 else 0
rng = np.random.default_rng(seed)
N = int(sys.argv[2]) if len(sys.argv)>2 else 300
stats = {}
bad = []
t0 = time.time()
for it in range(N):
    sc = None if rng.random() < .5 else gen.logu(rng, 1e-2, 1e2)
    A = gen.make(rng, scale=sc)
    B = gen.make(rng, scale=sc)
    if rng.random() < .15: A = C.Margin(A, gen.size(rng, 1e-2, 1))
    if rng.random() < .15: B = C.Margin(B, gen.size(rng, 1e-2, 1))
    oA = orc.oracle_of(A)
    mode = rng.choice(["free", "gap", "touch", "overlap"])
    g = None
    if mode != "free":
        s = max(oA.scale(), orc.oracle_of(B).scale())
        g = {"gap": gen.logu(rng, 1e-4, 10) * s, "touch": 0.0, "overlap": -gen.logu(rng, 1e-4, 0.5) * s}[mode]
        B, u = place.pair_at_gap(rng, A, B, g)
    oB = orc.oracle_of(B)
    L = max(1.0, oA.scale(), oB.scale(), np.linalg.norm(A.center() - B.center()), np.linalg.norm(A.center()), np.linalg.norm(B.center()))
    key = mode
    try:
        res = gjk.gjk(A, B)
    except Exception as e:
        bad.append((it, mode, gen.describe(A), gen.describe(B), "EXC " + type(e).__name__ + str(e)[:80])); continue
    d, a, b = res[0], res[1], res[2]
    if a is None:
        stats.setdefault("clipped", [0])[0] += 1; continue
    mA = oA.dist(a) / L; mB = oB.dist(b) / L
    cons = abs(np.linalg.norm(a - b) - d) / L
    if d > 0:
        n = (b - a) / np.linalg.norm(b - a)
        lb = -oB.h(-n) - oA.h(n)
        opt = (d - lb) / L
    else:
        opt = 0.0
    tru = None
    if g is not None and g >= 0:
        tru = abs(d - g) / L
    st = stats.setdefault(key, [0, 0, 0, 0, 0, 0])
    st[0] += 1; st[1] = max(st[1], mA, mB); st[2] = max(st[2], cons); st[3] = max(st[3], opt)
    if tru is not None: st[4] = max(st[4], tru)
    if max(mA, mB, cons, opt, tru or 0) > 1e-5:
        bad.append((it, mode, gen.describe(A), gen.describe(B), "L=%.3g d=%.6g g=%s mA=%.2e mB=%.2e cons=%.2e opt=%.2e" % (L, d, g, mA, mB, cons, opt)))
print("time", time.time() - t0)
for k, v in stats.items(): print(k, ["%.2e" % x for x in v])
for b in bad[:40]: print(b)
print(len(bad), "bad")
