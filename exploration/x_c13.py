import shim, warnings, sys
warnings.simplefilter('ignore')
import numpy as np
from distance3d import colliders as C, containment_test as CT
import gen, orc
from collections import Counter
rng = np.random.default_rng(int(sys.argv[1])); cnt = Counter(); ex = {}
def pred(col):
    t = type(col)
    if t is C.Sphere: return lambda P: CT.points_in_sphere(P, col.c, col.radius)
    if t is C.Capsule: return lambda P: CT.points_in_capsule(P, col.capsule2origin, col.radius, col.height)
    if t is C.Ellipsoid: return lambda P: CT.points_in_ellipsoid(P, col.ellipsoid2origin, col.radii)
    if t is C.Disk: return lambda P: CT.points_in_disk(P, col.c, col.radius, col.normal)
    if t is C.Cone: return lambda P: CT.points_in_cone(P, col.cone2origin, col.radius, col.height)
    if t is C.Cylinder: return lambda P: CT.points_in_cylinder(P, col.cylinder2origin, col.radius, col.length)
    if t is C.Box: return lambda P: CT.points_in_box(P, col.box2origin, col.size)
    if t is C.MeshGraph: return lambda P: CT.points_in_convex_mesh(P, col.mesh2origin, col.vertices, col.triangles)
for it in range(int(sys.argv[2])):
    kind = rng.choice(["sphere", "capsule", "ellipsoid", "disk", "cone", "cylinder", "box", "mesh"])
    def s(): return float(rng.choice([rng.uniform(0.2, 2), gen.logu(rng, 0.2, 100)]))
    col = gen.make(rng, kind, scale=None)
    o = orc.oracle_of(col); L = max(1.0, o.scale(), np.linalg.norm(col.center()))
    f = pred(col)
    # sample points: support points scaled inwards/outwards about center, random
    pts = []; exp = []
    c = col.center() if kind != "cone" else col.cone2origin[:3,3] + 0.25*col.height*col.cone2origin[:3,2]
    for _ in range(30):
        d = rng.normal(size=3)
        if rng.random() < .3:
            T = col.collider2origin(); d = T[:3, rng.integers(3)] * rng.choice([-1, 1])
        sp = col.support_function(np.ascontiguousarray(d))
        for lam in (0.0, 0.5, 0.99, 1 - 1e-6, 1 + 1e-6, 1.01, 2.0):
            p = c + lam * (sp - c)
            pts.append(p)
    P = np.array(pts)
    got = f(P)
    for p, gk in zip(P, got):
        dist = o.dist(p)
        # depth inside: min over sampled directions of support gap (upper bound of depth) -> use oracle: inside by margin if dist==0 and all 26 dirs gap >= m
        if dist >= 1e-9 * L:
            truth = False
        else:
            gaps = [o.h(u) - p @ u for u in (v / np.linalg.norm(v) for v in rng.normal(size=(40, 3)))]
            if kind == "disk": continue
            truth = True if min(gaps) >= 1e-6 * L else None
        if truth is None: continue
        k = (kind, truth, bool(gk) == truth)
        cnt[k] += 1
        if bool(gk) != truth and k not in ex: ex[k] = (p.tolist(), dist, L)
for k in sorted(cnt): print(k, cnt[k], ex.get(k, ""))
