"""D7a: line_to_circle's cut-off s_hat was transcribed as
m0^2 * (b1^2)^(2/3) - b1^2 instead of (r * m0^2 * b1^2)^(2/3) - b1^2, so the
bisection brackets were wrong and the returned distance was not the minimum.
Witness: circle of radius 2 in the xy-plane at the origin; the line below
passes the circle at distance 0.11775 (dense sampling of the circle against the
exact point-to-line distance); the unrepaired function returned 0.41873."""
import numpy as np
from distance3d.distance import line_to_circle
c = np.zeros(3); r = 2.0; n = np.array([0, 0, 1.0])
lp = np.array([-1.93, 2.25, -1.37]); ld = np.array([-0.25, 2.31, -1.0]); ld /= np.linalg.norm(ld)
th = np.linspace(0, 2 * np.pi, 200000, endpoint=False)
P = r * np.c_[np.cos(th), np.sin(th), 0 * th]
v = P - lp; ref = np.linalg.norm(v - np.outer(v @ ld, ld), axis=1).min()
d = line_to_circle(lp, ld, c, r, n)[0]
print("returned", d, "sampled minimum", ref)
assert d - ref < 5e-3 * 3
print("OK")
