"""D4: cone_aabb returned NaN for an axis-aligned cone away from the origin
(pb - pa rounded to slightly more than the height -> sqrt of a negative
number), and cylinder/disk/cone extents lost ~1e-8*radius for axes within
1e-8 rad of a coordinate axis (cancellation in sqrt(1 - n_i^2))."""
import numpy as np
from distance3d.containment import cone_aabb, cylinder_aabb, disk_aabb
T = np.eye(4); T[:3, 3] = [0.3, -0.7, 1.1]
lo, hi = cone_aabb(T, 0.5, 0.3)
print(lo, hi)
assert np.all(np.isfinite(lo)) and np.all(np.isfinite(hi))
th = 3e-8
n = np.array([np.sin(th), 0.0, np.cos(th)])
lo, hi = disk_aabb(np.zeros(3), 100.0, n)
true = 100.0 * np.sqrt(n[0] ** 2 + n[1] ** 2)   # extent along z
print(hi[2], true)
assert abs(hi[2] - true) < 1e-9 * 100.0
print("OK")
