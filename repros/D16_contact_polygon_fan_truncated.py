"""D16: compute_contact_force triangulates the contact polygon with a precomputed fan for at most 8 vertices.
The half-plane intersection can report nearly identical vertices twice (they differ by more than the 2e-15
duplicate filter), e.g. 9 vertices here; the fan was cut off after 6 triangles and area / force of the polygon
were too small by 12%. Uses the scene generator of the verification harness (seed 0, case 150 of C15)."""
import sys, numpy as np, warnings
warnings.simplefilter('ignore')
sys.path.insert(0,'/verif'); sys.path.insert(0,'/verif/stubs')
from verif import gen, hydro, oracles as O
from verif.child import case_rng
from distance3d import hydroelastic_contact as hc
idx=150; rng=case_rng(0,15,idx)
sc=hydro.scene(rng, hydro.BODIES[idx%6], hydro.BODIES[(idx//6)%6])
(k1,k2),(p1,p2),(T1,T2)=sc["kinds"],sc["params"],sc["poses"]
E=(gen.logu(rng,1e-2,1e2),gen.logu(rng,1e-2,1e2)) if rng.random()<0.7 else (1.0,1.0)
b1=hydro.make_body(k1,p1,T1); b2=hydro.make_body(k2,p2,T2); b1.youngs_modulus=E[0]; b2.youngs_modulus=E[1]
cs=hc.find_contact_surface(b1,b2)
poly=np.asarray(cs.contact_polygons[25]); n=np.asarray(cs.contact_planes[25])[:3]
area=0.5*abs(sum(np.cross(poly[i]-poly[0],poly[i+1]-poly[0])@n for i in range(1,len(poly)-1)))
print(len(poly),'vertices; polygon area',area,'reported contact_areas',cs.contact_areas[25])
assert abs(area-cs.contact_areas[25])<1e-9
print('OK')
