"""D15: line_to_circle decided 'line parallel to the circle normal' with an exact test |d x n|^2 > 0. A
direction that is parallel to the normal up to rounding (here: computed from two segment end points, |d x n|
= 6e-17) took the general branch, which divides by |d x n|^2 = 4e-33: the line was moved 4e16 units and the
result was garbage (8.03 instead of <= 0.75; line_segment_to_circle inherits it)."""
import numpy as np
from distance3d.distance import line_segment_to_circle
a = np.array([-3.8083215482734434, -2.1292135296576786, 0.44054127690358014])
b = np.array([3.9734026470308934, -11.426467890729622, -2.3442104940518314])
c = np.array([-1.800921477272114, -0.2613089867021037, -0.18621116018255846]); r = 3.5578737567247067
n = np.array([0.625549802040401, -0.7473787915276217, -0.22385796198019656])
d = line_segment_to_circle(a, b, c, r, n)[0]
# reference: dense sampling of circle and segment
t = np.linspace(0, 2 * np.pi, 4000, endpoint=False)
e = np.eye(3)[np.argmin(np.abs(n))]; x = np.cross(n, e); x /= np.linalg.norm(x); y = np.cross(n, x)
K = c + r * (np.cos(t)[:, None] * x + np.sin(t)[:, None] * y)
S = a + np.linspace(0, 1, 4000)[:, None] * (b - a)
ref = min(np.min(np.linalg.norm(K - s, axis=1)) for s in S[::20])
print("returned", d, "sampled minimum <=", ref)
assert d <= ref + 0.05
print("OK")
