"""D3a: insert_aabbs(..., pre_insertion_methode="sort") on a non-empty tree
sorted the wrong slice of the batch and did not offset the indices, so leaves
of the new batch were lost and old nodes re-inserted.
Expected (brute force): every inserted box overlaps the all-enclosing query."""
import numpy as np
from distance3d.aabb_tree import AabbTree
rng = np.random.default_rng(0)
def boxes(n):
    lo = rng.uniform(-5, 5, size=(n, 3)); hi = lo + rng.uniform(0.1, 1, size=(n, 3))
    return np.stack([lo, hi], axis=2)
t = AabbTree()
b1, b2 = boxes(5), boxes(4)
t.insert_aabbs(b1, list(range(5)), pre_insertion_methode="sort")
t.insert_aabbs(b2, list(range(5, 9)), pre_insertion_methode="sort")
big = np.array([[-100, 100.0]] * 3)
_, idx = t.overlaps_aabb(big)
got = sorted(t.external_data_list[i] for i in idx)
print("payloads found:", got)
assert got == list(range(9)), got
print("OK")
