"""D17: gjk_distance_jolt reported a collision (distance 0) for a capsule and a box that are 0.5 apart.

The last simplex is a sliver triangle (three support differences that are collinear up to 1.6e-15, longest edge 7):
closest_point_triangle only treated triangles with |n|^2 < eps^2 (an absolute threshold) as degenerate, so the
Voronoi-region tests ran on products that cancel completely, the origin was classified 'inside the face' and its
projection on the sliver's plane (which contains the origin) was returned: v = 0 -> 'intersection'.

exit 0 = correct distance 0.5 (fixed), exit 1 = defect present
"""
import sys
import numpy as np
from distance3d import gjk, colliders

TA = np.array([[1.0, 0.0, 0.0, 1.0], [0.0, 1.0, 0.0, 0.0], [0.0, 0.0, 1.0, -3.0], [0.0, 0.0, 0.0, 1.0]])
TB = np.array([[0.0, 0.0, 1.0, 3.0], [0.0, 1.0, 0.0, 2.0], [-1.0, 0.0, 0.0, -1.0], [0.0, 0.0, 0.0, 1.0]])
A = colliders.Capsule(TA, 1.0, 3.0)           # axis z through (1, 0, .), x range [0, 2]
B = colliders.Box(TB, np.array([4.0, 4.0, 1.0]))   # local z = world x: x range [2.5, 3.5]
d = gjk.gjk_distance_jolt(A, B)[0]
print("gjk_distance_jolt(capsule, box) =", d, "(true distance 0.5)")
print("gjk_distance_jolt(box, capsule) =", gjk.gjk_distance_jolt(B, A)[0])
sys.exit(0 if abs(d - 0.5) < 1e-6 else 1)
