"""D10: the wrenches [force, torque] were mapped to the world frame with the
transposed adjoint of body2's pose, which is the rule for [torque, force]
vectors and for the inverse transform. As soon as body 2 is rotated or
translated with a non-zero torque the returned forces were rotated the wrong
way and mixed with the torque: f12 != -f21 and the result changed when both
bodies were moved together."""
import sys
sys.path.insert(0, "/verif/stubs")
import numpy as np
from distance3d import hydroelastic_contact as hc
def rot(axis, a):
    axis = np.asarray(axis, float) / np.linalg.norm(axis)
    K = np.array([[0, -axis[2], axis[1]], [axis[2], 0, -axis[0]], [-axis[1], axis[0], 0]])
    return np.eye(3) + np.sin(a) * K + (1 - np.cos(a)) * K @ K
def bodies(G):
    T1 = np.eye(4); T1[:3, :3] = rot([1, 2, 3], 0.4); T1[:3, 3] = [0.0, 0.02, 0.01]
    T2 = np.eye(4); T2[:3, :3] = rot([3, -1, 2], 1.1); T2[:3, 3] = [0.05, 0.0, 0.22]
    b1 = hc.RigidBody.make_box(G @ T1, np.array([0.3, 0.2, 0.25]))
    b2 = hc.RigidBody.make_ellipsoid(G @ T2, np.array([0.1, 0.15, 0.12]), 2)
    return b1, b2
hit, w12, w21 = hc.contact_forces(*bodies(np.eye(4)))
G = np.eye(4); G[:3, :3] = rot([0, 1, 1], 0.9); G[:3, 3] = [1.0, -2.0, 0.5]
hit2, v12, v21 = hc.contact_forces(*bodies(G))
f = np.linalg.norm(w12[:3])
print("hit", hit, hit2, "|f12|", f)
print("|f12+f21|/|f|", np.linalg.norm(w12[:3] + w21[:3]) / f)
print("|G f12 - f12'|/|f|", np.linalg.norm(G[:3, :3] @ w12[:3] - v12[:3]) / f)
assert hit and hit2
assert np.linalg.norm(w12[:3] + w21[:3]) <= 0.05 * f
assert np.linalg.norm(G[:3, :3] @ w12[:3] - v12[:3]) <= 0.05 * f
print("OK")
