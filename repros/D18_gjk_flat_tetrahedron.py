"""D18: the Jolt simplex solver returned the origin itself (|v| = 0, 'origin inside the tetrahedron') for four points that
lie on one straight line up to rounding, 30 units away from the origin.

origin_outside_of_tetrahedron_planes decides from the signs of four triple products whether the tetrahedron is degenerate
('mixed signs'); for a tetrahedron without volume those products are rounding noise, and when the noise happens to have
one sign the origin tests (also noise) can all say 'inside'. closest_point_tetrahedron then returns v = 0.

exit 0 = |v| is the distance of the origin to the segment (30), exit 1 = defect present
"""
import sys
import numpy as np
from distance3d.gjk._gjk_jolt import get_closest_point_to_origin

Y = np.array([[-37.47641723857339, -22.263890332195263, 17.038686474266747],
              [-19.73332482524808, 40.30399420332315, -15.500768171835668],
              [-19.733314843306363, 40.30402940288652, -15.50078647794561],
              [-19.706859401692654, 40.39731984951076, -15.549303704945771]])
ok, v, v_len_sq, simplex = get_closest_point_to_origin(Y.copy(), 4, float("inf"))
print("success", ok, "v", v, "|v|", None if v is None else float(np.sqrt(v_len_sq)), "subset", bin(simplex) if ok else None)
# own answer: the points are collinear (to 1e-15), the closest point of the segment Y0-Y3
a, b = Y[0], Y[3]
t = np.clip(-a @ (b - a) / ((b - a) @ (b - a)), 0, 1)
ref = float(np.linalg.norm(a + t * (b - a)))
print("distance of the origin to the segment through the points:", ref)
sys.exit(0 if ok and abs(float(np.sqrt(v_len_sq)) - ref) < 1e-6 * ref else 1)
