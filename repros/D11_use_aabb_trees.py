"""D11: find_contact_surface(..., use_aabb_trees=True) accessed the attribute
aabbtree_, which RigidBody does not have (it is aabb_tree), so the tree-based
broad phase always raised AttributeError."""
import sys
sys.path.insert(0, "/verif/stubs")
import numpy as np
from distance3d import hydroelastic_contact as hc
def mk():
    return (hc.RigidBody.make_sphere(np.array([0.0, 0.0, 0.01]), 0.15, 1),
            hc.RigidBody.make_sphere(np.array([0.0, 0.05, 0.2]), 0.15, 1))
a = hc.find_contact_surface(*mk(), use_aabb_trees=False)
b = hc.find_contact_surface(*mk(), use_aabb_trees=True)
pa = sorted(zip(a.intersecting_tetrahedra1, a.intersecting_tetrahedra2))
pb = sorted(zip(b.intersecting_tetrahedra1, b.intersecting_tetrahedra2))
print(len(pa), len(pb))
assert pa == pb and len(pa) > 0
print("OK")
