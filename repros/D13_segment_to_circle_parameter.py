"""D13: line_segment_to_circle recovered the line parameter of the closest point by dividing by the first
non-zero component of the segment direction. For a segment whose x coordinates differ by one ulp that
component is 1e-16: the parameter is garbage and the returned 'closest point on the segment' is not on the
segment."""
import numpy as np
from distance3d.distance import line_segment_to_circle
a = np.array([-0.8026794511377284, -1.6626429290897276, 5.035800840353653])
b = np.array([-0.8026794511377285, -0.20525899811707604, 6.493184771326305])
c = np.array([-0.05718152553161027, 7.36961048252551, -0.5809069747397908]); r = 0.5179067823942338
n = np.array([1.0, 0.0, 6.123233995736766e-17])
d, ps, pc = line_segment_to_circle(a, b, c, r, n)
ab = b - a
t = np.clip((ps - a) @ ab / (ab @ ab), 0, 1)
off = np.linalg.norm(ps - (a + t * ab))
print("d", d, "returned segment point is", off, "away from the segment")
assert off < 1e-9
print("OK")
