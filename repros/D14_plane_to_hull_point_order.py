"""D14: plane_to_triangle / plane_to_rectangle / plane_to_box return (dist, point on plane, point on shape).
When the shape crosses the plane at a very shallow angle (|cos| < 1e-3, treated as parallel by the inner
segment/plane routine) the two points differ and were returned in swapped order."""
import numpy as np
from distance3d.distance import plane_to_rectangle
pp = np.array([3.7698759155720136, -4.945976785773418, -7.872666342456739])
pn = np.array([0.002232179615781579, 0.00035981446415299053, 0.9999974439505904])
c = np.array([4.432657677796228, -7.8344324515369586, -7.875051573718536])
axes = np.array([[0.9999999985848738, 3.442380134985552e-05, 4.056173079567154e-05],
                 [-3.442558016536229e-05, 0.9999999984458249, 4.385464466008498e-05]])
lengths = np.array([0.3836666438384569, 13.45701327276804])
d, p_plane, p_rect = plane_to_rectangle(pp, pn, c, axes, lengths)
off_plane = abs((p_plane - pp) @ pn)
n_rect = np.cross(axes[0], axes[1])
off_rect = abs((p_rect - c) @ n_rect)
print("d", d, "point 'on plane' off plane by", off_plane, "; point 'on rectangle' off its plane by", off_rect)
assert off_plane < 1e-9 and off_rect < 1e-9
print("OK")
