"""D9: make_halfplanes skipped faces parallel to the contact plane but wrote
the kept half-planes at their original row i while returning the first
hp_idx rows: the last half-planes were dropped and an uninitialised row was
returned. Witness: 8 half-spaces where face 0 is parallel to the plane z = 0;
the 7 remaining half-planes must all be returned (compare with the rows
computed by hand)."""
import sys
sys.path.insert(0, "/verif/stubs")
import numpy as np
from distance3d.hydroelastic_contact._tetrahedron_intersection import make_halfplanes
X = np.array([[0, 0, 1, -0.5],      # parallel to the plane: skipped
              [1, 0, 0, -1.0], [0, 1, 0, -1.0], [-1, 0, 0, -1.0], [0, -1, 0, -1.0],
              [1, 1, 0, -1.5], [-1, 1, 0, -1.5], [1, -1, 0, -1.5]], dtype=float)
cart2plane = np.array([[1.0, 0, 0], [0, 1.0, 0]])
hp = make_halfplanes(X, np.zeros(3), cart2plane)
exp = []
for i in range(1, 8):
    n2 = X[i, :2]; ds = -X[i, 3]
    exp.append(np.r_[n2 * ds / (n2 @ n2), n2[1], -n2[0]])
exp = np.array(exp)
print(hp)
assert hp.shape == (7, 4) and np.allclose(hp, exp), "half-planes lost / garbage row"
print("OK")
