"""D6: gjk_nesterov_accelerated subtracted the radius of a sphere/capsule from
the result although, for a pair in which one collider has no specialised
support function, the generic support functions (which already contain the
radius) are used. A sphere of radius 1 at the origin and a cone whose base is
at x = 3: true distance 2, returned 1 -> and a false 'intersection' for gaps
smaller than the radius."""
import numpy as np
from distance3d import colliders, gjk
S = colliders.Sphere(np.zeros(3), 1.0)
T = np.array([[0., 0, 1, 3], [0, 1, 0, 0], [-1, 0, 0, 0], [0, 0, 0, 1]])  # cone axis along +x, base at x=3
K = colliders.Cone(T, 0.5, 1.0)
d = gjk.gjk_nesterov_accelerated_distance(S, K)
print("nesterov distance", d, " jolt distance", gjk.gjk_distance(S, K)[0])
assert abs(d - 2.0) < 1e-3
T[:3, 3] = [1.5, 0, 0]; K = colliders.Cone(T, 0.5, 1.0)
hit = gjk.gjk_nesterov_accelerated_intersection(S, K)
print("gap 0.5 -> intersection:", hit)
assert hit is False or hit == False
print("OK")
