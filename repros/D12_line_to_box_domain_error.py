"""D12: line_to_box / line_segment_to_box raised ValueError (math domain error): the squared distance is
accumulated algebraically and rounds to a tiny negative number for some lines that hit the box."""
import numpy as np, traceback, warnings
warnings.simplefilter('ignore')
from distance3d.distance import line_segment_to_box
a=np.array([0.5840940867003254, 2.103628740447241, 1.9610974319315144]); b=np.array([1.2212944389035543, 1.798356190647834, 2.4387428260328203])
T=np.array([[0.9878374782245667, -0.13945250696943767, -0.06877583089187599, 0.2681634846483656], [-0.09993439553557712, -0.9082708808843416, 0.4062722283475959, 2.135589801292997], [-0.1191227652628487, -0.39445786243592773, -0.9111601185075052, 1.9991953253372459], [0.0, 0.0, 0.0, 1.0]]); size=np.array([0.21321361662296892, 0.3029871721277874, 0.42642723324593784])
try:
    print(line_segment_to_box(a,b,T,size))
except Exception: traceback.print_exc()
