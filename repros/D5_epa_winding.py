"""D5: EPA built its four initial faces assuming a negatively oriented
simplex (D behind ABC). GJK hands over simplices of either orientation; for
the other one all initial normals pointed inwards and EPA could return a
vector that is not minimal although success=True.
Witness: two 6-vertex integer hulls; exact penetration depth (closest facet of
the Minkowski difference, computed with Qhull) is 1.62417; unrepaired EPA
returned |mtv| = 2.69104 with success=True."""
import numpy as np
from scipy.spatial import ConvexHull
from distance3d import colliders, gjk, epa
VA = np.array([[-2., 2, -1], [0, 0, 3], [-2, 1, -3], [-1, -2, -3], [1, 3, -2], [-1, -1, -1]])
VB = np.array([[-1., 2, -5], [-1, -2, 1], [-1, 0, 0], [0, -2, -4], [3, -1, 0], [-2, 3, -5]])
M = (VA[:, None, :] - VB[None, :, :]).reshape(-1, 3)
depth = -ConvexHull(M).equations[:, 3].max()
A = colliders.ConvexHullVertices(VA); B = colliders.ConvexHullVertices(VB)
d, _, _, simplex = gjk.gjk(A, B)
assert d == 0.0
print('simplex orientation', np.dot(np.cross(simplex[1] - simplex[0], simplex[2] - simplex[0]), simplex[3] - simplex[0]))
mtv, _, success = epa.epa(simplex, A, B)
print("exact depth", depth, "|mtv|", np.linalg.norm(mtv), "success", success)
assert success and abs(np.linalg.norm(mtv) - depth) < 1e-6
print("OK")
