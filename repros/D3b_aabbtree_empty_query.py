"""D3b: queries on / with an empty AabbTree indexed aabbs[-1] of an empty
array inside compiled code (out-of-bounds read: garbage, IndexError with
NUMBA_DISABLE_JIT=1, segfault in overlaps_aabb_tree). Run in a subprocess."""
import subprocess, sys
code = r'''
import numpy as np
from distance3d.aabb_tree import AabbTree
e = AabbTree(); t = AabbTree()
t.insert_aabbs(np.array([[[0, 1.0]] * 3, [[2, 3.0]] * 3]))
q = np.array([[0, 1.0]] * 3)
r = e.overlaps_aabb(q); assert r[0] is False and len(r[1]) == 0, r
for a, b in ((e, t), (t, e), (e, e)):
    r = a.overlaps_aabb_tree(b); assert r[0] is False and len(r[3]) == 0, r
print("OK")
'''
p = subprocess.run([sys.executable, "-X", "faulthandler", "-c", code], capture_output=True, text=True)
print(p.stdout, p.stderr[-600:], "returncode", p.returncode)
sys.exit(0 if p.returncode == 0 else 1)
