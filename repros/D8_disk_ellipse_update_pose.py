"""D8: Disk.update_pose / Ellipse.update_pose stored non-contiguous views of
the pose; the compiled support functions only accept C-contiguous arrays, so
every support / GJK query after update_pose raised TypeError (JIT on)."""
import numpy as np
from distance3d import colliders, gjk
T = np.eye(4); T[:3, 3] = [0.5, 0.2, 2.0]
disk = colliders.Disk(np.zeros(3), 1.0, np.array([0.0, 0.0, 1.0]))
disk.update_pose(T)
print(disk.support_function(np.array([1.0, 0.0, 0.0])))
ell = colliders.Ellipse(np.zeros(3), np.array([[1.0, 0, 0], [0, 1.0, 0]]), np.array([1.0, 0.5]))
ell.update_pose(T)
print(ell.support_function(np.array([1.0, 0.0, 0.0])))
print(gjk.gjk(disk, colliders.Sphere(np.zeros(3), 0.5))[0])
print("OK")
