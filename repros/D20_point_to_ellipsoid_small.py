"""D20: point_to_ellipsoid is wrong for small ellipsoids (all inside the documented size range).

The Newton iteration stops when |s| < epsilon = 1e-16, but s is a polynomial of dimension length^12: for an ellipsoid
with radii of a few hundredths the test is already true at the initial guess, so the 'closest point' is computed from
the start value. The same scene scaled by 0.05 returned 0.02836 instead of 0.02000 (42 % off, the returned point far
from the surface); scaled by 1 it is right.

exit 0 = the distance scales with the scene (and the returned point is on the surface), exit 1 = defect present
"""
import sys
import numpy as np
from distance3d.distance import point_to_ellipsoid

radii = np.array([0.2, 1.2933395901079996, 0.5])
p = np.array([-0.125, 0.25, 0.875])
d1, _ = point_to_ellipsoid(p, np.eye(4), radii)
bad = 0
for s in (1.0, 0.5, 0.2, 0.0773, 0.05):
    d, c = point_to_ellipsoid(p * s, np.eye(4), radii * s)
    resid = abs(float(((c / (radii * s)) ** 2).sum()) - 1.0)
    ok = abs(d / s - d1) < 1e-9 and resid < 1e-9
    bad += not ok
    print("scale %-7g d/scale = %.12f   surface equation residual of the returned point %.2e   %s" % (s, d / s, resid, "ok" if ok else "WRONG"))
sys.exit(1 if bad else 0)
