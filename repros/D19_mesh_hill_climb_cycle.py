"""D19: MeshGraph.support_function never returned (endless loop inside the compiled hill climbing).

A convex mesh of size ~100 is asked for its support point in a direction that is normal to one of its faces up to
rounding (GJK's search direction at convergence). The three vertices of that face have the same projection (834.976...);
hill_climb_mesh_extreme moved to a neighbour whenever dot(direction, neighbour - current) exceeded 10*eps = 2.2e-15,
but for coordinates of this size that difference is rounding noise of ~1e-14 with a different sign for every pair, so
the climb went 16 -> 10 -> 14 -> 16 -> ... forever; gjk_distance_jolt(mesh, ...) hung with it.

The GJK query of the pair in which this happened (two meshes about 45 apart) runs in a child process:
exit 0 = it returns the distance, exit 1 = still running after 60 s or wrong value.
"""
import json
import os
import subprocess
import sys

HERE = os.path.dirname(os.path.abspath(__file__))
CHILD = r"""
import json, sys, numpy as np
from distance3d import colliders, gjk
c = json.load(open(sys.argv[1]))
def build(s):
    m = colliders.MeshGraph(np.array(s["T"]), np.ascontiguousarray(np.array(s["V"])), np.array(s["tri"], dtype=np.int64))
    return m if s["margin"] is None else colliders.Margin(m, s["margin"])
A = build(c["sA"]); B = build(c["sB"])
d = gjk.gjk_distance_jolt(A, B)[0]
print("gjk_distance_jolt(mesh, margin(mesh)) =", d)
sys.exit(0 if abs(d - 43.50149574589696) < 1e-3 else 1)
"""
try:
    r = subprocess.run([sys.executable, "-c", CHILD, os.path.join(HERE, "D19_mesh_hill_climb_cycle.json")], timeout=60,
                       capture_output=True, text=True)
    print(r.stdout.strip() or r.stderr.strip()[-500:])
    sys.exit(0 if r.returncode == 0 else 1)
except subprocess.TimeoutExpired:
    print("gjk_distance_jolt did not return within 60 s")
    sys.exit(1)
