"""D7b: for a line through the circle centre along the normal (and for a
critical point on the axis) line_to_circle built the circle point from
pytransform3d's perpendicular_to_vector, which is not of unit length, so the
returned 'closest point on the circle' was not on the circle."""
import numpy as np
from distance3d.distance import line_to_circle
c = np.zeros(3); r = 2.0; n = np.array([0.36, 0.48, 0.8])
d, pl, pc = line_to_circle(0.5 * n, n, c, r, n)
off = abs(np.linalg.norm(pc - c) - r), abs((pc - c) @ n)
print("d", d, "circle point radius error", off[0], "plane error", off[1])
assert max(off) < 1e-9 and abs(d - r) < 1e-9
print("OK")
