"""Environment handling: tree hash, numba cache directories, dependencies,
child-process launcher. Everything is checkout-relative (ROOT = the directory
that contains run_check.py) so that the framework also works from a snapshot.
"""
import hashlib
import os
import shutil
import subprocess
import sys
import time

ROOT = os.path.dirname(os.path.dirname(os.path.abspath(__file__)))
REPO = os.environ.get("VERIF_REPO", "/repo")
PY = os.environ.get("VERIF_PYTHON", "/venv/bin/python")
DEPS = os.path.join(ROOT, ".deps")
CACHE = os.path.join(ROOT, ".cache")
STUBS = os.path.join(ROOT, "stubs")
WHEELS = "/opt/veriftools/wheels"
NCPU = min(16, os.cpu_count() or 1)


def tree_hash():
    """SHA-256 over all library sources of the working tree (not the tests)."""
    h = hashlib.sha256()
    base = os.path.join(REPO, "distance3d")
    files = []
    for d, dirs, fs in os.walk(base):
        dirs[:] = sorted(x for x in dirs if x not in ("__pycache__", "test"))
        for f in sorted(fs):
            if f.endswith(".py"):
                files.append(os.path.join(d, f))
    for p in sorted(files):
        h.update(os.path.relpath(p, base).encode())
        with open(p, "rb") as fh:
            h.update(fh.read())
    return h.hexdigest()


def ensure_deps():
    """Install icontract / deal / jsonschema beside the repo's interpreter
    (offline wheelhouse). Idempotent, cheap when already present."""
    marker = os.path.join(DEPS, ".ok")
    if os.path.exists(marker):
        return
    os.makedirs(DEPS, exist_ok=True)
    cmd = [PY, "-m", "pip", "install", "--quiet", "--no-index", "--find-links",
           WHEELS, "--target", DEPS, "icontract", "deal", "jsonschema"]
    env = dict(os.environ, PIP_NO_INDEX="1", PIP_DISABLE_PIP_VERSION_CHECK="1")
    r = subprocess.run(cmd, env=env, capture_output=True, text=True)
    if r.returncode != 0:
        # a concurrent installer may have won the race; accept if importable
        chk = subprocess.run([PY, "-c", "import sys; sys.path.insert(0, %r); import icontract, jsonschema" % DEPS],
                             capture_output=True, text=True)
        if chk.returncode != 0:
            sys.stderr.write(r.stdout + r.stderr)
            raise RuntimeError("could not install harness dependencies offline")
    open(marker, "w").close()


def numba_cache_dir(mode, thash=None):
    thash = thash or tree_hash()
    d = os.path.join(CACHE, "numba", "%s-%s" % (mode, thash[:20]))
    os.makedirs(d, exist_ok=True)
    os.utime(d, None)
    _prune(os.path.join(CACHE, "numba"), mode, keep=4)
    return d


def _prune(base, mode, keep):
    try:
        ds = [os.path.join(base, x) for x in os.listdir(base) if x.startswith(mode + "-")]
        ds.sort(key=lambda p: os.path.getmtime(p), reverse=True)
        for p in ds[keep:]:
            if time.time() - os.path.getmtime(p) > 1800:
                shutil.rmtree(p, ignore_errors=True)
    except OSError:
        pass


def child_env(mode="jit", need_stub=False, thash=None, extra=None):
    """Environment for a child interpreter.

    mode: 'jit' (as installed), 'nojit' (NUMBA_DISABLE_JIT=1), 'bounds'
    (JIT + NUMBA_BOUNDSCHECK=1, the bounds sanitizer of the compiled kernels).
    """
    env = dict(os.environ)
    pp = [REPO, ROOT, DEPS]
    if need_stub:
        pp.insert(0, STUBS)
    env["PYTHONPATH"] = os.pathsep.join(pp)
    env["PYTHONHASHSEED"] = "0"
    env["PYTHONWARNINGS"] = "ignore"
    env["OMP_NUM_THREADS"] = "1"
    env["OPENBLAS_NUM_THREADS"] = "1"
    env["MKL_NUM_THREADS"] = "1"
    env["NUMBA_NUM_THREADS"] = "1"
    env["MPLBACKEND"] = "Agg"
    env.pop("NUMBA_DISABLE_JIT", None)
    env.pop("NUMBA_BOUNDSCHECK", None)
    if mode == "nojit":
        env["NUMBA_DISABLE_JIT"] = "1"
    elif mode == "bounds":
        env["NUMBA_BOUNDSCHECK"] = "1"
    env["NUMBA_CACHE_DIR"] = numba_cache_dir(mode, thash)
    env["VERIF_MODE"] = mode
    if extra:
        env.update(extra)
    return env


WARM_CODE = r"""
import warnings; warnings.simplefilter('ignore')
import distance3d.distance, distance3d.gjk, distance3d.mpr, distance3d.epa
import distance3d.self_collision, distance3d.broad_phase, distance3d.containment_test
import distance3d.colliders, distance3d.aabb_tree
try:
    import distance3d.hydroelastic_contact
except Exception:
    pass
"""


def warm(mode="jit", need_stub=True, thash=None):
    """Compile the eagerly compiled kernels once (one process) so that the
    shard children only load the cache. An import failure here is not fatal
    for the harness: the children will hit and *record* it."""
    thash = thash or tree_hash()
    d = numba_cache_dir(mode, thash)
    marker = os.path.join(d, ".warm")
    if os.path.exists(marker) or mode == "nojit":
        return 0.0
    t0 = time.time()
    r = subprocess.run([PY, "-X", "faulthandler", "-c", WARM_CODE],
                       env=child_env(mode, need_stub, thash), capture_output=True, text=True,
                       timeout=1800)
    if r.returncode == 0:
        open(marker, "w").close()
    return time.time() - t0
