"""Seeded generators: rotations, sizes, centres, shape specs, placement classes.

`build(spec)` is the only function that touches distance3d: it constructs the
library's collider from a spec exactly as the docstrings prescribe (float64,
C-contiguous arrays).
"""
import math

import numpy as np

from . import oracles as O

KINDS = O.KINDS
ROT_KINDS = ["haar", "axis", "perm", "ident", "tiny", "product"]


def logu(rng, lo, hi):
    return float(10 ** rng.uniform(math.log10(lo), math.log10(hi)))


def rand_rot(rng, kind=None):
    kind = kind or rng.choice(ROT_KINDS, p=[.45, .13, .13, .09, .1, .1])
    if kind == "ident":
        return np.eye(3)
    if kind == "perm":
        P = np.eye(3)[rng.permutation(3)]
        S = np.diag(rng.choice([-1.0, 1.0], 3))
        R = P @ S
        if np.linalg.det(R) < 0:
            R[:, 0] *= -1
        return R
    if kind == "axis":
        a = float(rng.choice([0.5, 1.0, 1.5, 0.25, 1.0 / 3])) * np.pi
        ax = int(rng.integers(3))
        c, s = math.cos(a), math.sin(a)
        R = np.eye(3)
        i, j = [(1, 2), (2, 0), (0, 1)][ax]
        R[i, i] = c; R[j, j] = c; R[i, j] = -s; R[j, i] = s
        return R
    if kind == "tiny":
        w = rng.normal(size=3) * 10 ** rng.uniform(-9, -3)
        K = np.array([[0, -w[2], w[1]], [w[2], 0, -w[0]], [-w[1], w[0], 0]])
        Q, _ = np.linalg.qr(np.eye(3) + K)
        Q = Q * np.sign(np.diag(Q))
        return Q
    if kind == "product":
        return rand_rot(rng, "haar") @ rand_rot(rng, rng.choice(["haar", "axis", "perm"]))
    Q, R = np.linalg.qr(rng.normal(size=(3, 3)))
    Q = Q * np.sign(np.diag(R))
    if np.linalg.det(Q) < 0:
        Q[:, 0] *= -1
    return Q


def rand_dir(rng):
    v = rng.normal(size=3)
    return v / np.linalg.norm(v)


def size(rng, smin=1e-2, smax=1e2):
    m = rng.choice(["unit", "log", "round"], p=[.5, .35, .15])
    if m == "unit":
        return float(rng.uniform(0.2, 2.0))
    if m == "round":
        c = [x for x in (0.01, 0.1, 0.5, 1.0, 2.0, 10.0, 100.0) if smin <= x <= smax]
        return float(rng.choice(c))
    return logu(rng, smin, smax)


def center(rng, far_ok=True):
    p = np.array([.45, .25, .1, .2])
    if not far_ok:
        p = np.array([.55, .25, 0.0, .2])
    m = rng.choice(["near", "mid", "far", "lattice"], p=p / p.sum())
    if m == "near":
        return rng.normal(size=3)
    if m == "mid":
        return rng.uniform(-10, 10, size=3)
    if m == "far":
        return rand_dir(rng) * rng.uniform(100, 700)
    return rng.integers(-3, 4, size=3).astype(float)


STRUCTURED = ["cube", "prism", "octa", "ico", "grid", "chamfer"]


def structured_vertices(rng, which=None):
    """vertex sets with exactly coplanar triangulated faces / symmetric plateaus"""
    which = which or rng.choice(STRUCTURED)
    if which == "cube":
        V = np.array([[a, b, c] for a in (-1., 1) for b in (-1., 1) for c in (-1., 1)])
    elif which == "prism":
        k = int(rng.integers(3, 9))
        ang = np.arange(k) * 2 * np.pi / k
        ring = np.c_[np.cos(ang), np.sin(ang)]
        V = np.vstack([np.c_[ring, -np.ones(k)], np.c_[ring, np.ones(k)]])
    elif which == "octa":
        V = np.vstack([np.eye(3), -np.eye(3)])
    elif which == "ico":
        g = (1 + 5 ** 0.5) / 2
        V = []
        for a in (-1, 1):
            for b in (-g, g):
                V += [[0, a, b], [a, b, 0], [b, 0, a]]
        V = np.array(V, float) / math.hypot(1, g)
    elif which == "chamfer":
        # cube with one corner cut off by a tiny chamfer: a sliver-sized face next to large ones
        e = 10 ** rng.uniform(-3, -1.5)
        V = [[a, b, c] for a in (-1., 1) for b in (-1., 1) for c in (-1., 1) if not (a == 1 and b == 1 and c == 1)]
        V += [[1 - e, 1, 1], [1, 1 - e, 1], [1, 1, 1 - e]]
        V = np.array(V)
    else:  # grid: cube corners + edge midpoints (collinear / coplanar extra hull points)
        V = np.array([[a, b, c] for a in (-1., 0, 1) for b in (-1., 0, 1) for c in (-1., 0, 1)
                      if (a != 0) + (b != 0) + (c != 0) >= 2])
    return np.ascontiguousarray(V, dtype=float), str(which)


def rand_spec(rng, kind=None, c=None, scale=None, rot=None, smin=1e-2, smax=1e2, margin_p=0.0, far_ok=True):
    kind = kind or str(rng.choice(KINDS))
    c = center(rng, far_ok) if c is None else np.array(c, float)
    R = rand_rot(rng) if rot is None else np.array(rot, float)
    T = O.pose(R, c)
    if scale is None:
        def s():
            return size(rng, smin, smax)
    else:
        def s():
            return float(min(smax, max(smin, scale * rng.uniform(0.5, 1.5))))
    if kind == "sphere":
        sp = {"kind": kind, "c": np.ascontiguousarray(c), "r": s()}
    elif kind == "ellipsoid":
        sp = {"kind": kind, "T": T, "radii": np.array([s(), s(), s()])}
    elif kind == "capsule":
        sp = {"kind": kind, "T": T, "r": s(), "h": s()}
    elif kind == "cylinder":
        sp = {"kind": kind, "T": T, "r": s(), "l": s()}
    elif kind == "cone":
        sp = {"kind": kind, "T": T, "r": s(), "h": s()}
    elif kind == "box":
        sp = {"kind": kind, "T": T, "size": np.array([s(), s(), s()])}
    elif kind == "disk":
        sp = {"kind": kind, "c": np.ascontiguousarray(c), "r": s(), "n": np.ascontiguousarray(R[:, 2])}
    elif kind == "ellipse":
        sp = {"kind": kind, "c": np.ascontiguousarray(c), "axes": np.ascontiguousarray(R[:, :2].T),
              "radii": np.array([s(), s()])}
    elif kind in ("mesh", "hull"):
        if rng.random() < 0.3:
            V, which = structured_vertices(rng)
            V = V * 0.5 * np.array([s(), s(), s()])
            sub = "structured:" + which
        else:
            n = int(rng.integers(4, 30))
            V = rng.normal(size=(n, 3)) * 0.4 * np.array([s(), s(), s()])
            # keep the vertex spread inside the domain
            sub = "random"
        ext = float(np.ptp(V, axis=0).max())
        if ext > smax:
            V = V * (smax / ext)
        mn = float(np.ptp(V, axis=0).max())
        if mn < smin:
            V = V * (smin / mn)
        if kind == "mesh" and rng.random() < 0.25:
            # vertices that no triangle uses (strictly interior), placed FIRST in the vertex array: the docstring of
            # make_convex_mesh allows vertex sets that are not in convex position
            cen = V.mean(axis=0)
            k = int(rng.integers(1, 3))
            extra = np.array([cen + rng.uniform(0.5, 0.95) * (V[int(np.argmax(V @ rand_dir(rng)))] - cen) for _ in range(k)])
            V = np.vstack([extra, V])
            sub += "+unused-first-vertex"
        V = np.ascontiguousarray(V)
        if kind == "hull":
            sp = {"kind": kind, "V": np.ascontiguousarray(V @ R.T + c), "sub": sub}
        else:
            # MeshGraph documents 'indices of vertices that form triangles' without a winding convention: besides
            # consistently outward triangles, Qhull's raw simplices (mixed winding) and a flipped / rotated listing
            w = str(rng.choice(["outward", "raw", "flipped"], p=[0.6, 0.2, 0.2]))
            sp = {"kind": kind, "T": T, "V": V, "sub": sub + ("" if w == "outward" else "+winding:" + w), "winding": w}
    else:
        raise ValueError(kind)
    if margin_p and rng.random() < margin_p:
        sp = {"kind": "margin", "base": sp, "m": size(rng, 1e-2, 1.0)}
    return sp


_TRI_CACHE = {}


def triangles_for(V, winding="outward"):
    """Triangles of the convex hull of V (scipy Qhull; independent of distance3d.mesh.make_convex_mesh):
    'outward' = consistently outward normals (orientation fixed here), 'raw' = Qhull's simplices as they come (mixed
    winding), 'flipped' = every other triangle reversed, index order rotated, faces listed backwards."""
    from scipy.spatial import ConvexHull
    key = V.tobytes() + winding.encode()
    if key in _TRI_CACHE:
        return _TRI_CACHE[key]
    ch = ConvexHull(V)
    tri = ch.simplices.copy()
    if winding == "raw":
        tri = np.ascontiguousarray(tri, dtype=np.int64)
        _TRI_CACHE[key] = tri
        return tri
    cen = V[ch.vertices].mean(axis=0)
    for i, t in enumerate(tri):
        n = np.cross(V[t[1]] - V[t[0]], V[t[2]] - V[t[0]])
        if n @ (V[t[0]] - cen) < 0:
            tri[i] = t[::-1]
    if winding == "flipped":
        tri = np.array([np.roll(t[::-1] if i % 2 else t, i % 3) for i, t in enumerate(tri)])[::-1]
    tri = np.ascontiguousarray(tri, dtype=np.int64)
    if len(_TRI_CACHE) > 200:
        _TRI_CACHE.clear()
    _TRI_CACHE[key] = tri
    return tri


def target_pose(spec):
    """4x4 pose that update_pose() must be given to put a collider of this kind where the spec says"""
    k = spec["kind"]
    if "T" in spec:
        return np.array(spec["T"], dtype=float, order="C")
    T = np.eye(4)
    if k == "sphere":
        T[:3, 3] = spec["c"]
    elif k == "disk":
        n = np.asarray(spec["n"], float)
        a = np.eye(3)[int(np.argmin(np.abs(n)))]
        x = np.cross(a, n); x /= np.linalg.norm(x)
        y = np.cross(n, x)
        T[:3, 0] = x; T[:3, 1] = y; T[:3, 2] = n; T[:3, 3] = spec["c"]
    elif k == "ellipse":
        A = np.asarray(spec["axes"], float)
        T[:3, 0] = A[0]; T[:3, 1] = A[1]; T[:3, 2] = np.cross(A[0], A[1]); T[:3, 3] = spec["c"]
    else:
        return None
    return np.ascontiguousarray(T)


def build_via_update(spec, rng):
    """same collider as build(spec), but constructed at another pose and moved there with update_pose
    (as a BVH does on every update); the pose is handed over either as a fresh array or as one matrix of a
    C-contiguous stack. Falls back to build() for kinds without update_pose (vertex hulls)."""
    k = spec["kind"]
    if k == "margin":
        from distance3d import colliders as C
        return C.Margin(build_via_update(spec["base"], rng), float(spec["m"]))
    T = target_pose(spec)
    if T is None:
        return build(spec)
    G = O.pose(rand_rot(rng), rng.normal(size=3) * 3)
    col = build(O.moved(spec, G))
    apply_pose(col, T, rng)
    return col


def apply_pose(col, T, rng, mode=None):
    """hand the pose T to col.update_pose the ways callers do: 'fresh' array, one matrix of a C-contiguous 'stack', or
    'inplace' = a pose buffer the collider has been given before, overwritten in place and handed over again (the
    simulation-loop pattern; colliders keep a reference to the array they were given). Returns the mode used."""
    mode = mode or str(rng.choice(["fresh", "stack", "inplace"], p=[0.4, 0.3, 0.3]))
    T = np.array(T, dtype=float, order="C")
    if mode == "stack":
        stack = np.ascontiguousarray(np.stack([np.eye(4), T, O.pose(rand_rot(rng), rng.normal(size=3))]))
        col.update_pose(stack[1])
    elif mode == "inplace":
        buf = np.ascontiguousarray(O.pose(rand_rot(rng), T[:3, 3] + rng.normal(size=3)))
        col.update_pose(buf)
        buf[...] = T
        col.update_pose(buf)
    else:
        col.update_pose(T)
    return mode


def build(spec, copy=True):
    """library collider from a spec (fresh arrays; copy=False hands the spec's own float64 arrays to the constructor,
    the way a caller does who keeps using his arrays afterwards)."""
    from distance3d import colliders as C
    k = spec["kind"]
    f = (lambda a: np.array(a, dtype=float, order="C")) if copy else (lambda a: a)  # noqa: E731
    if k == "margin":
        return C.Margin(build(spec["base"], copy), float(spec["m"]))
    if k == "sphere":
        return C.Sphere(f(spec["c"]), float(spec["r"]))
    if k == "ellipsoid":
        return C.Ellipsoid(f(spec["T"]), f(spec["radii"]))
    if k == "capsule":
        return C.Capsule(f(spec["T"]), float(spec["r"]), float(spec["h"]))
    if k == "cylinder":
        return C.Cylinder(f(spec["T"]), float(spec["r"]), float(spec["l"]))
    if k == "cone":
        return C.Cone(f(spec["T"]), float(spec["r"]), float(spec["h"]))
    if k == "box":
        return C.Box(f(spec["T"]), f(spec["size"]))
    if k == "disk":
        return C.Disk(f(spec["c"]), float(spec["r"]), f(spec["n"]))
    if k == "ellipse":
        return C.Ellipse(f(spec["c"]), f(spec["axes"]), f(spec["radii"]))
    if k == "hull":
        return C.ConvexHullVertices(f(spec["V"]))
    if k == "mesh":
        V = f(spec["V"])
        return C.MeshGraph(f(spec["T"]), V, triangles_for(V, spec.get("winding", "outward")))
    raise ValueError(k)


# ----------------------------------------------------------------------------
# placement classes for pairs

def place_gap(rng, sA, sB, g, u=None):
    """Translate B so that pB = pA + g*u for the oracle support points
    pA = argmax_A x.u, pB = argmin_B y.u. For g >= 0 the true distance is then
    exactly g (the plane through pA with normal u separates, and (pA,pB)
    attains it). For g < 0 the shapes overlap with extent -g along u."""
    if u is None:
        u = rand_dir(rng)
    oA = O.oracle(sA); oB = O.oracle(sB)
    pA = oA.sup(u)
    pB = oB.sup(-u)
    shift = pA + g * u - pB
    return O.translated(sB, shift), u, pA, pA + g * u


def place_deep(rng, sA, sB, frac=0.5):
    """Translate B so that a point with known inscribed-ball radius of B lies
    within the inscribed ball of A. Returns (sB', common point, certified
    depth in both) or None if one of them is flat."""
    oA = O.oracle(sA); oB = O.oracle(sB)
    pA, rA = oA.deep_point()
    pB, rB = oB.deep_point()
    if rA <= 0 or rB <= 0:
        return None
    off = rand_dir(rng) * rng.uniform(0, frac) * rA
    sB2 = O.translated(sB, pA + off - pB)
    depth = min(rA - float(np.linalg.norm(off)), rB)
    return sB2, pA + off, depth


def mesh_vertex_dirs(spec):
    """world directions from the centroid of a mesh towards its first vertices (unused interior vertices come first)"""
    b = spec["base"] if spec["kind"] == "margin" else spec
    if b["kind"] != "mesh":
        return []
    V = np.asarray(b["V"], float); R = np.asarray(b["T"], float)[:3, :3]
    cen = V.mean(axis=0)
    out = []
    for v in V[:2]:
        d = R @ (v - cen)
        if np.linalg.norm(d) > 0:
            out.append(np.ascontiguousarray(d / np.linalg.norm(d)))
    return out


def mesh_face_normal_dirs(spec, rng, n=4):
    """world directions normal to faces of a mesh (up to rounding): all vertices of the face have the same projection,
    which is where GJK's search direction ends up in front of a face; unnormalised and normalised variants"""
    b = spec["base"] if spec["kind"] == "margin" else spec
    if b["kind"] != "mesh":
        return []
    V = np.asarray(b["V"], float); R = np.asarray(b["T"], float)[:3, :3]
    tri = triangles_for(np.ascontiguousarray(V), "outward")
    out = []
    for t in tri[rng.permutation(len(tri))[:n]]:
        nrm = np.cross(V[t[1]] - V[t[0]], V[t[2]] - V[t[0]])
        if not np.any(nrm):
            continue
        d = R @ nrm
        if rng.random() < 0.5:
            d = d / np.linalg.norm(d)
        if rng.random() < 0.3:
            d = d * float(rng.choice([1e-3, 50.0, 1e3]))
        out.append(np.ascontiguousarray(d))
    return out


def rand_dirs(rng, n, frames=()):
    """hostile direction set: random, +-world axes, +-frame axes, sums and
    differences of two frame axes, exact zeros, wide norm range."""
    out = []
    axes = [np.eye(3)[i] for i in range(3)]
    for F in frames:
        axes += [np.asarray(F)[:, i] for i in range(3)]
    for _ in range(n):
        m = rng.choice(["rand", "axis", "sum", "zeros", "tilt"], p=[.35, .2, .2, .15, .1])
        if m == "rand":
            d = rand_dir(rng)
        elif m == "axis":
            d = axes[int(rng.integers(len(axes)))] * rng.choice([-1.0, 1.0])
        elif m == "sum":
            a = axes[int(rng.integers(len(axes)))]; b = axes[int(rng.integers(len(axes)))]
            d = a * rng.choice([-1.0, 1.0]) + b * rng.choice([-1.0, 1.0])
            if np.linalg.norm(d) < 1e-12:
                d = a
        elif m == "zeros":
            d = rng.normal(size=3)
            d[int(rng.integers(3))] = 0.0
            if rng.random() < 0.4:
                d[int(rng.integers(3))] = 0.0
            if np.linalg.norm(d) == 0:
                d = np.array([0.0, 0.0, 1.0])
        else:
            a = axes[int(rng.integers(len(axes)))]
            d = a + rng.normal(size=3) * 10 ** rng.uniform(-12, -4)
        d = d / np.linalg.norm(d) * 10 ** rng.uniform(-3, 3) if rng.random() < 0.3 else d
        out.append(np.ascontiguousarray(d, dtype=float))
    return out


def scale_bucket(x):
    if x < 0.1:
        return "s<0.1"
    if x < 3:
        return "s~1"
    if x < 30:
        return "s~10"
    return "s>30"
