"""Overlapping scenes with penetration-depth oracles, shared by C07 (EPA), C08 (MPR) and C12."""
import numpy as np
from scipy.optimize import minimize

from . import gen, oracles as O, pairs, refsolve

POLY = ("box", "hull", "mesh")


def world_vertices(spec):
    k = spec["kind"]
    if k == "box":
        return O.oracle(spec).vertices()
    if k == "hull":
        return np.asarray(spec["V"], float)
    if k == "mesh":
        T = np.asarray(spec["T"], float)
        return np.asarray(spec["V"], float) @ T[:3, :3].T + T[:3, 3]
    return None


def make_overlap(rng, kA, kB, margin_p=0.0, allow_classes=("overlap", "deep", "nested", "lattice", "copy", "same")):
    """overlapping pair + truth about the penetration depth.
    returns sA, sB, cls, info with
       info['exact']  exact depth (polytope pairs) or None
       info['eq']     facet equations of A-B (polytope pairs)
       info['ub']     an upper bound of the depth (any pair)
       info['lb']     a certified lower bound (2 * inscribed common ball radius) or 0
    or None if the generated scene does not overlap."""
    p = {"overlap": .45, "deep": .2, "nested": .1, "lattice": .15, "copy": .05, "same": .05}
    p = {k: v for k, v in p.items() if k in allow_classes}
    sA, sB, cls, truth = pairs.make_pair(rng, kA, kB, margin_p=margin_p, class_p=p)
    if cls.startswith("overlap"):
        # re-place with a depth between 1e-4 and 0.5 of the smaller shape (make_pair's overlap class starts at 1e-6)
        oA = O.oracle(sA); oB = O.oracle(sB)
        g = -gen.logu(rng, 1e-4, 0.5) * min(oA.scale(), oB.scale())
        sB, u, pa, pb = gen.place_gap(rng, sA, sB, g, truth.get("u"))
        truth = {"dist": None, "common": None, "depth": None, "u": u, "extent": -g}
    oA, oB, L = pairs.scene(sA, sB)
    info = {"exact": None, "eq": None, "ub": None, "lb": 0.0, "L": L, "truth": truth}
    polyA = sA["kind"] in POLY; polyB = sB["kind"] in POLY
    if polyA and polyB:
        VA = world_vertices(sA); VB = world_vertices(sB)
        if len(VA) * len(VB) <= 4000:
            d, n, eq = refsolve.polytope_depth(VA, VB)
            if eq is None:
                return None       # degenerate difference body
            if d is None:
                return None       # not overlapping
            info["exact"] = d; info["eq"] = eq; info["ub"] = d
            return sA, sB, cls, info
    # generic: overlap must be certified by a common point
    r = refsolve.ref_distance(oA, oB, L, eps_rel=1e-7, max_iter=200)
    if r["lb"] > 0:
        return None
    if truth.get("common") is not None and truth.get("depth"):
        info["lb"] = 2.0 * max(0.0, truth["depth"])
    info["ub"] = depth_upper_bound(oA, oB, rng, u0=truth.get("u"))
    return sA, sB, cls, info


def hM(oA, oB, n):
    return oA.h(n) + oB.h(-n)


_DIRS = None


def _dirs():
    global _DIRS
    if _DIRS is None:
        r = np.random.default_rng(12345)
        D = r.normal(size=(600, 3))
        _DIRS = D / np.linalg.norm(D, axis=1)[:, None]
    return _DIRS


def depth_upper_bound(oA, oB, rng, u0=None, polish=True):
    """min over sampled unit directions of the extent of A-B along n (each value is an upper bound of the
    penetration depth), polished by Nelder-Mead in spherical coordinates."""
    best = np.inf; bn = None
    cands = list(_dirs()[:200])
    if u0 is not None:
        cands += [np.asarray(u0, float), -np.asarray(u0, float)]
    for n in cands:
        v = hM(oA, oB, n)
        if v < best:
            best = v; bn = n
    if polish and bn is not None:
        def f(x):
            n = bn + x[0] * e1 + x[1] * e2
            n = n / np.linalg.norm(n)
            return hM(oA, oB, n)
        a = np.eye(3)[int(np.argmin(np.abs(bn)))]
        e1 = np.cross(bn, a); e1 /= np.linalg.norm(e1); e2 = np.cross(bn, e1)
        try:
            res = minimize(f, np.zeros(2), method="Nelder-Mead", options={"xatol": 1e-10, "fatol": 1e-13, "maxiter": 300})
            if res.fun < best:
                best = float(res.fun)
        except Exception:  # noqa: BLE001
            pass
    return float(best)


def common_ball_lower_bound(oA, oB, p0, iters=200):
    """2 * radius of a ball contained in both shapes (a certified lower bound of the penetration depth),
    maximised from the start point p0 by Nelder-Mead. 0 if no common interior point is found."""
    def f(p):
        return -min(oA.depth(p), oB.depth(p))
    best = -f(np.asarray(p0, float))
    try:
        res = minimize(f, np.asarray(p0, float), method="Nelder-Mead",
                       options={"xatol": 1e-9, "fatol": 1e-12, "maxiter": iters})
        best = max(best, -float(res.fun))
    except Exception:  # noqa: BLE001
        pass
    return 2.0 * max(0.0, best)
