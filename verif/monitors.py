"""Runtime monitors that attach to the library from the outside."""
import sys

import numpy as np


class SupportBudgetExceeded(Exception):
    pass


class Counted:
    """Transparent collider proxy: counts and records support_function calls and
    enforces a logical step budget (C19's bound is a count, not wall-clock)."""

    def __init__(self, col, limit=1000, record=False):
        d = self.__dict__
        d["_c"] = col; d["n"] = 0; d["limit"] = limit; d["record"] = record
        d["dirs"] = []; d["pts"] = []; d["bad_dir"] = 0

    def support_function(self, search_direction):
        d = self.__dict__
        d["n"] += 1
        if d["n"] > d["limit"]:
            raise SupportBudgetExceeded("more than %d support evaluations" % d["limit"])
        sd = np.asarray(search_direction)
        if not np.all(np.isfinite(sd)):
            d["bad_dir"] += 1
        p = d["_c"].support_function(search_direction)
        if d["record"]:
            d["dirs"].append(np.array(sd, dtype=float)); d["pts"].append(np.array(p, dtype=float))
        return p

    def __getattr__(self, k):
        return getattr(self.__dict__["_c"], k)

    def __setattr__(self, k, v):
        setattr(self.__dict__["_c"], k, v)


class CallCounter:
    """Source-free call counting with sys.monitoring (PY_START on selected code
    objects). Used for algorithms that dispatch on type(collider) and therefore
    cannot be given proxies."""
    TOOL = 4

    def __init__(self, functions, limit=None):
        self.codes = {}
        for f in functions:
            f = getattr(f, "__func__", f)
            f = getattr(f, "py_func", f)
            code = getattr(f, "__code__", None)
            if code is not None:
                self.codes[code] = f.__qualname__
        self.count = 0
        self.limit = limit
        self.active = False
        self.exceeded = False

    def __enter__(self):
        mon = sys.monitoring
        try:
            mon.use_tool_id(self.TOOL, "verif-callcounter")
        except ValueError:
            pass
        mon.register_callback(self.TOOL, mon.events.PY_START, self._cb)
        for code in self.codes:
            mon.set_local_events(self.TOOL, code, mon.events.PY_START)
        self.count = 0
        self.exceeded = False
        self.active = True
        return self

    def _cb(self, code, offset):
        if self.active and code in self.codes:
            self.count += 1
            if self.limit is not None and self.count > self.limit and not self.exceeded:
                self.exceeded = True
                raise SupportBudgetExceeded("more than %d support evaluations" % self.limit)

    def __exit__(self, *a):
        mon = sys.monitoring
        self.active = False
        for code in self.codes:
            mon.set_local_events(self.TOOL, code, 0)
        mon.register_callback(self.TOOL, mon.events.PY_START, None)
        try:
            mon.free_tool_id(self.TOOL)
        except ValueError:
            pass
        return False


def finite(*xs):
    for x in xs:
        if x is None:
            return False
        if not np.all(np.isfinite(np.asarray(x, dtype=float))):
            return False
    return True


def tetra_quality(simplex):
    """relative volume |det(edges)| / (longest edge)^3 of a 4x3 simplex; 0.0 when rows are non-finite or
    coincide. GJK hands EPA a (4,3) array of which only the first n rows are valid when it stopped with
    fewer than four points (the rest is whatever np.empty left there)."""
    try:
        S = np.asarray(simplex, dtype=float)
        if S.shape != (4, 3) or not np.all(np.isfinite(S)):
            return 0.0
        E = S[1:] - S[0]
        m = float(max(np.linalg.norm(E, axis=1).max(), np.linalg.norm(S[2] - S[1]), np.linalg.norm(S[3] - S[1]),
                      np.linalg.norm(S[3] - S[2])))
        if not m > 0:
            return 0.0
        return float(abs(np.linalg.det(E / m)))
    except Exception:  # noqa: BLE001
        return 0.0


def valid_simplex_rows(Y, pa, pb):
    """number of distinct rows of the returned Minkowski simplex that are support differences p_i - q_i
    recorded by the proxies during THIS query (needs Counted(..., record=True))."""
    try:
        Y = np.asarray(Y, float)
        if pb is pa:
            W = np.array(pa.pts[0::2]) - np.array(pa.pts[1::2])
        else:
            W = np.array(pa.pts) - np.array(pb.pts)
        uniq = []
        for y in Y:
            if np.all(np.isfinite(y)) and np.any(np.all(W == y, axis=1)) and not any(np.array_equal(y, z) for z in uniq):
                uniq.append(y)
        return len(uniq)
    except Exception:  # noqa: BLE001
        return -1


def simplex_is_tetrahedron(Y, pa, pb, min_quality=1e-9):
    return valid_simplex_rows(Y, pa, pb) == 4 and tetra_quality(Y) >= min_quality


class PhaseCounter:
    """sys.monitoring PY_START recorder: logs the sequence of calls of the given pure-Python functions so that
    work can be attributed to phases of an algorithm (e.g. support evaluations during MPR's portal discovery
    vs. refinement) without touching the source."""
    TOOL = 3

    def __init__(self, functions):
        self.codes = {}
        for name, f in functions.items():
            f = getattr(f, "__func__", f)
            f = getattr(f, "py_func", f)
            self.codes[f.__code__] = name
        self.log = []
        self.active = False

    def __enter__(self):
        mon = sys.monitoring
        try:
            mon.use_tool_id(self.TOOL, "verif-phasecounter")
        except ValueError:
            pass
        mon.register_callback(self.TOOL, mon.events.PY_START, self._cb)
        for code in self.codes:
            mon.set_local_events(self.TOOL, code, mon.events.PY_START)
        self.log = []
        self.active = True
        return self

    def _cb(self, code, offset):
        if self.active:
            n = self.codes.get(code)
            if n is not None and len(self.log) < 100000:
                self.log.append(n)

    def __exit__(self, *a):
        mon = sys.monitoring
        self.active = False
        for code in self.codes:
            mon.set_local_events(self.TOOL, code, 0)
        mon.register_callback(self.TOOL, mon.events.PY_START, None)
        try:
            mon.free_tool_id(self.TOOL)
        except ValueError:
            pass
        return False

    def per_phase(self, phase_names, unit):
        """{phase: number of `unit` events logged while that phase was the most recently started one}"""
        out = {}
        cur = None
        for n in self.log:
            if n in phase_names:
                cur = n
                out.setdefault(cur, 0)
            elif n == unit and cur is not None:
                out[cur] += 1
        return out


def libccd_first_edge(A, B):
    """The first simplex edge of gjk_intersection_libccd, rebuilt through the public collider interface: v0 from the
    first vertices, v1 the support difference towards the origin. Returns (sine of the angle between the edge and the
    direction to the origin, squared length of the triple product (AB x AO) x AB the algorithm continues with)."""
    v0 = np.asarray(A.first_vertex(), float) - np.asarray(B.first_vertex(), float)
    if not np.any(v0):
        return 0.0, 0.0
    v1 = np.asarray(A.support_function(-v0), float) - np.asarray(B.support_function(v0), float)
    AB = v0 - v1; AO = -v1
    den = float(np.linalg.norm(AB) * np.linalg.norm(AO))
    c = np.cross(AB, AO)
    t = np.cross(c, AB)
    return (float(np.linalg.norm(c)) / den if den > 0 else 0.0), float(t @ t)
