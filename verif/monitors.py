"""Runtime monitors that attach to the library from the outside."""
import sys

import numpy as np


class SupportBudgetExceeded(Exception):
    pass


class Counted:
    """Transparent collider proxy: counts and records support_function calls and
    enforces a logical step budget (C19's bound is a count, not wall-clock)."""

    def __init__(self, col, limit=1000, record=False):
        d = self.__dict__
        d["_c"] = col; d["n"] = 0; d["limit"] = limit; d["record"] = record
        d["dirs"] = []; d["pts"] = []; d["bad_dir"] = 0

    def support_function(self, search_direction):
        d = self.__dict__
        d["n"] += 1
        if d["n"] > d["limit"]:
            raise SupportBudgetExceeded("more than %d support evaluations" % d["limit"])
        sd = np.asarray(search_direction)
        if not np.all(np.isfinite(sd)):
            d["bad_dir"] += 1
        p = d["_c"].support_function(search_direction)
        if d["record"]:
            d["dirs"].append(np.array(sd, dtype=float)); d["pts"].append(np.array(p, dtype=float))
        return p

    def __getattr__(self, k):
        return getattr(self.__dict__["_c"], k)

    def __setattr__(self, k, v):
        setattr(self.__dict__["_c"], k, v)


class CallCounter:
    """Source-free call counting with sys.monitoring (PY_START on selected code
    objects). Used for algorithms that dispatch on type(collider) and therefore
    cannot be given proxies."""
    TOOL = 4

    def __init__(self, functions, limit=None):
        self.codes = {}
        for f in functions:
            f = getattr(f, "__func__", f)
            f = getattr(f, "py_func", f)
            code = getattr(f, "__code__", None)
            if code is not None:
                self.codes[code] = f.__qualname__
        self.count = 0
        self.limit = limit
        self.active = False
        self.exceeded = False

    def __enter__(self):
        mon = sys.monitoring
        try:
            mon.use_tool_id(self.TOOL, "verif-callcounter")
        except ValueError:
            pass
        mon.register_callback(self.TOOL, mon.events.PY_START, self._cb)
        for code in self.codes:
            mon.set_local_events(self.TOOL, code, mon.events.PY_START)
        self.count = 0
        self.exceeded = False
        self.active = True
        return self

    def _cb(self, code, offset):
        if self.active and code in self.codes:
            self.count += 1
            if self.limit is not None and self.count > self.limit and not self.exceeded:
                self.exceeded = True
                raise SupportBudgetExceeded("more than %d support evaluations" % self.limit)

    def __exit__(self, *a):
        mon = sys.monitoring
        self.active = False
        for code in self.codes:
            mon.set_local_events(self.TOOL, code, 0)
        mon.register_callback(self.TOOL, mon.events.PY_START, None)
        try:
            mon.free_tool_id(self.TOOL)
        except ValueError:
            pass
        return False


def finite(*xs):
    for x in xs:
        if x is None:
            return False
        if not np.all(np.isfinite(np.asarray(x, dtype=float))):
            return False
    return True
