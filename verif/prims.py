"""Primitives of distance3d.distance: generators in a shared frame, independent
oracles (distance of a point to the primitive, support mapping where convex),
reference minimum distances for pairs, and the table of the 34 functions."""
import math

import numpy as np

from . import gen, oracles as O, refsolve

SMIN, SMAX = 0.2, 100.0


# ---------------------------------------------------------------------------
# oracle primitives

class PLine:
    kind = "line"; bounded = False; convex = True

    def __init__(s, p, d):
        s.p = np.array(p, float); s.d = np.array(d, float)

    def dist(s, x):
        w = np.asarray(x, float) - s.p
        return float(np.linalg.norm(w - (w @ s.d) * s.d))

    def center(s):
        return s.p.copy()

    def scale(s):
        return 1.0

    def dirs(s):
        return [s.d]


class PPlane:
    kind = "plane"; bounded = False; convex = True

    def __init__(s, p, n):
        s.p = np.array(p, float); s.n = np.array(n, float)

    def dist(s, x):
        return abs(float((np.asarray(x, float) - s.p) @ s.n))

    def signed(s, x):
        return float((np.asarray(x, float) - s.p) @ s.n)

    def center(s):
        return s.p.copy()

    def scale(s):
        return 1.0

    def dirs(s):
        return [s.n]


class PCircle:
    kind = "circle"; bounded = True; convex = False

    def __init__(s, c, r, n):
        s.c = np.array(c, float); s.r = float(r); s.n = np.array(n, float)

    def dist(s, x):
        v = np.asarray(x, float) - s.c
        z = float(v @ s.n)
        rho = float(np.linalg.norm(v - z * s.n))
        return math.hypot(rho - s.r, z)

    def center(s):
        return s.c.copy()

    def scale(s):
        return 2 * s.r

    def dirs(s):
        return [s.n]

    def sample(s, m):
        a = np.eye(3)[int(np.argmin(np.abs(s.n)))]
        x = np.cross(s.n, a); x /= np.linalg.norm(x)
        y = np.cross(s.n, x)
        t = np.linspace(0, 2 * np.pi, m, endpoint=False)
        return s.c + s.r * (np.cos(t)[:, None] * x + np.sin(t)[:, None] * y), (x, y)


class PEllipsoidSurface:
    """surface of an ellipsoid (point_to_ellipsoid(distance_to_surface=True))"""
    kind = "ellipsoid_surface"; bounded = True; convex = False

    def __init__(s, T, radii):
        s.solid = O.OEllipsoid(T, radii)

    def dist(s, x):
        q = s.solid.loc(x)
        e = s.solid.e
        F = float(np.sum((q / e) ** 2))
        if abs(F - 1.0) <= 1e-6:
            # (numerically) on the surface: first-order distance |F-1| / |grad F|; the global search below has a
            # resolution error of up to ~1e-4 of the size for very flat ellipsoids (it flagged a correct answer of the
            # library on radii (29.4, 0.2, 50) in the thorough tier)
            g = float(np.linalg.norm(2.0 * q / e ** 2))
            return abs(F - 1.0) / g if g > 0 else 0.0
        if F >= 1.0:
            return O.dist_ellipsoid_surface(q, e)
        return _dist_inside_ellipsoid(q, e)

    def center(s):
        return s.solid.center()

    def scale(s):
        return s.solid.scale()

    def dirs(s):
        return [s.solid.R[:, i] for i in range(3)]


def _dist_inside_ellipsoid(q, e):
    """distance from an interior point to the ellipsoid surface: global search over the surface
    (grid in spherical parameters + local refinement)"""
    th = np.linspace(0, np.pi, 121)
    ph = np.linspace(0, 2 * np.pi, 240, endpoint=False)
    TH, PH = np.meshgrid(th, ph, indexing="ij")
    X = np.stack([e[0] * np.sin(TH) * np.cos(PH), e[1] * np.sin(TH) * np.sin(PH), e[2] * np.cos(TH)], axis=-1)
    D = np.linalg.norm(X - q, axis=-1)
    i, j = np.unravel_index(int(np.argmin(D)), D.shape)
    from scipy.optimize import minimize

    def f(u):
        x = np.array([e[0] * math.sin(u[0]) * math.cos(u[1]), e[1] * math.sin(u[0]) * math.sin(u[1]), e[2] * math.cos(u[0])])
        return float(np.linalg.norm(x - q))
    res = minimize(f, np.array([th[i], ph[j]]), method="Nelder-Mead", options={"xatol": 1e-12, "fatol": 1e-15, "maxiter": 400})
    return float(min(res.fun, D[i, j]))


def hull(V):
    o = O.OHull(np.atleast_2d(np.array(V, float)))
    return o


class Prim:
    """wrapper: kind, library arguments, oracle"""
    def __init__(s, kind, args, orc, dirs):
        s.kind = kind; s.args = args; s.orc = orc; s.dirs = [np.asarray(d, float) for d in dirs]

    def dist(s, x):
        return s.orc.dist(np.asarray(x, float))

    @property
    def bounded(s):
        return getattr(s.orc, "bounded", True)

    @property
    def convex(s):
        return getattr(s.orc, "convex", True)

    def describe(s):
        return {"kind": s.kind, "args": [a.tolist() if isinstance(a, np.ndarray) else a for a in s.args]}


# ---------------------------------------------------------------------------
# generators (shared frame F, shared lattice of half sizes)

def _size(rng):
    m = rng.choice(["unit", "log", "round"], p=[.5, .3, .2])
    if m == "unit":
        return float(rng.uniform(0.3, 3.0))
    if m == "round":
        return float(rng.choice([0.25, 0.5, 1.0, 2.0, 4.0, 10.0, 100.0]))
    return gen.logu(rng, SMIN, SMAX)


class Scene:
    """shared frame + lattice spacing so that exactly parallel / perpendicular / coplanar / touching /
    contained / coincident placements occur"""
    def __init__(s, rng, structured):
        s.rng = rng
        s.structured = structured
        s.F = gen.rand_rot(rng, str(rng.choice(["haar", "ident", "perm", "axis"], p=[.5, .2, .15, .15])))
        s.o = gen.center(rng, far_ok=True) if rng.random() < 0.7 else np.zeros(3)
        s.h = _size(rng) * 0.5      # half lattice step
        # 15% of the scenes live at the floor of the size domain (every feature 0.2 .. 0.5): absolute thresholds
        # and iteration tolerances of the functions are weakest there
        s.small = bool(rng.random() < 0.15)
        if s.small:
            s.h = float(rng.uniform(0.1, 0.2))

    def direction(s):
        rng = s.rng
        if s.structured and rng.random() < 0.8:
            m = rng.choice(["axis", "sum2", "sum3"], p=[.6, .3, .1])
            if m == "axis":
                d = s.F[:, int(rng.integers(3))] * rng.choice([-1.0, 1.0])
            elif m == "sum2":
                i, j = rng.choice(3, size=2, replace=False)
                d = s.F[:, i] * rng.choice([-1.0, 1.0]) + s.F[:, j] * rng.choice([-1.0, 1.0])
            else:
                d = s.F @ rng.choice([-1.0, 1.0], size=3)
            return d / np.linalg.norm(d)
        return gen.rand_dir(rng)

    def frame(s):
        """orthonormal frame: the shared one (possibly with permuted/flipped axes) or a random one"""
        rng = s.rng
        if s.structured and rng.random() < 0.8:
            P = np.eye(3)[rng.permutation(3)] * rng.choice([-1.0, 1.0], size=3)
            R = s.F @ P.T
            if np.linalg.det(R) < 0:
                R[:, 0] *= -1
            return R
        return gen.rand_rot(rng)

    def point(s):
        rng = s.rng
        if s.structured and rng.random() < 0.8:
            p = s.o + s.F @ (rng.integers(-4, 5, size=3).astype(float) * s.h)
            if rng.random() < 0.12:
                # just off a degenerate position: probes the functions' absolute epsilon thresholds
                p = p + gen.rand_dir(rng) * s.h * 10 ** rng.uniform(-10, -2)
            return p
        return s.o + rng.normal(size=3) * s.h * 4

    def length(s):
        rng = s.rng
        if s.small:
            return float(rng.choice([2 * s.h, rng.uniform(0.2, 0.5)])) if s.structured else float(rng.uniform(0.2, 0.5))
        if s.structured and rng.random() < 0.8:
            return float(max(SMIN, min(SMAX, 2 * s.h * float(rng.integers(1, 5)))))
        return _size(rng)


def make(kind, sc):
    rng = sc.rng
    f = lambda a: np.array(a, dtype=float, order="C")  # noqa: E731
    if kind == "point":
        p = sc.point()
        return Prim(kind, (f(p),), hull([p]), [])
    if kind == "line":
        p = sc.point(); d = sc.direction()
        return Prim(kind, (f(p), f(d)), PLine(p, d), [d])
    if kind == "segment":
        a = sc.point(); d = sc.direction(); ln = sc.length()
        b = a + d * ln
        return Prim(kind, (f(a), f(b)), hull([a, b]), [d])
    if kind == "plane":
        p = sc.point(); n = sc.direction()
        return Prim(kind, (f(p), f(n)), PPlane(p, n), [n])
    if kind == "triangle":
        R = sc.frame(); c = sc.point()
        if rng.random() < 0.15:
            # sliver: all edges inside the size domain, height 1e-7..1e-2 (non-zero area)
            l1 = sc.length()
            V = np.array([c, c + R[:, 0] * l1, c + R[:, 0] * l1 * rng.uniform(0.3, 0.7) + R[:, 1] * 10 ** rng.uniform(-7, -2)])
            for i in range(3):
                if np.linalg.norm(V[i] - V[(i + 1) % 3]) < SMIN:
                    V = c + (V - c) * (SMIN * 1.05 / np.linalg.norm(V[i] - V[(i + 1) % 3]))
        elif sc.structured and rng.random() < 0.7:
            l1, l2 = sc.length(), sc.length()
            V = np.array([c, c + R[:, 0] * l1, c + R[:, 1] * l2])
            if rng.random() < 0.5:
                V[2] = c + R[:, 0] * l1 * float(rng.choice([0.5, 1.0])) + R[:, 1] * l2
        else:
            V = c + (rng.normal(size=(3, 3)) * _size(rng))
            # keep edge sizes in the domain
            for _ in range(5):
                e = [np.linalg.norm(V[i] - V[(i + 1) % 3]) for i in range(3)]
                if min(e) >= SMIN and max(e) <= SMAX:
                    break
                V = c + (V - c) * (1.0 / min(e) if min(e) < SMIN else SMAX / max(e) * 0.9)
        n = np.cross(V[1] - V[0], V[2] - V[0])
        nn = np.linalg.norm(n)
        dirs = [n / nn] if nn > 0 else []
        dirs += [(V[(i + 1) % 3] - V[i]) / max(1e-300, np.linalg.norm(V[(i + 1) % 3] - V[i])) for i in range(3)]
        return Prim(kind, (f(V),), hull(V), dirs)
    if kind == "rectangle":
        R = sc.frame(); c = sc.point(); l = np.array([sc.length(), sc.length()])
        axes = R[:, :2].T
        V = [c + sx * 0.5 * l[0] * axes[0] + sy * 0.5 * l[1] * axes[1] for sx in (-1, 1) for sy in (-1, 1)]
        return Prim(kind, (f(c), f(axes), f(l)), hull(V), [R[:, 2], axes[0], axes[1]])
    if kind in ("circle", "disk"):
        c = sc.point(); n = sc.direction(); r = sc.length() * 0.5 if (sc.structured or sc.small) else _size(rng)
        r = float(max(SMIN, r))
        orc = PCircle(c, r, n) if kind == "circle" else O.ODisk(c, r, n)
        return Prim(kind, (f(c), r, f(n)), orc, [n])
    if kind == "box":
        R = sc.frame(); c = sc.point(); size = np.array([sc.length(), sc.length(), sc.length()])
        T = O.pose(R, c)
        return Prim(kind, (f(T), f(size)), O.OBox(T, size), [R[:, i] for i in range(3)])
    if kind in ("ellipsoid", "ellipsoid_surface"):
        R = sc.frame(); c = sc.point(); radii = np.array([sc.length(), sc.length(), sc.length()]) * 0.5
        if sc.small:
            radii = rng.uniform(0.2, 0.45, size=3)
        radii = np.maximum(radii, SMIN)
        T = O.pose(R, c)
        orc = O.OEllipsoid(T, radii) if kind == "ellipsoid" else PEllipsoidSurface(T, radii)
        return Prim(kind, (f(T), f(radii)), orc, [R[:, i] for i in range(3)])
    if kind == "cylinder":
        R = sc.frame(); c = sc.point(); r = max(SMIN, sc.length() * 0.5); ln = sc.length()
        T = O.pose(R, c)
        return Prim(kind, (f(T), float(r), float(ln)), O.OCylinder(T, r, ln), [R[:, 2]])
    raise ValueError(kind)


# ---------------------------------------------------------------------------
# the 34 functions: name -> (kind1, kind2, extra kwargs)

FUNCTIONS = {
    "point_to_line": ("point", "line"), "point_to_line_segment": ("point", "segment"), "point_to_plane": ("point", "plane"),
    "point_to_triangle": ("point", "triangle"), "point_to_rectangle": ("point", "rectangle"), "point_to_disk": ("point", "disk"),
    "point_to_circle": ("point", "circle"), "point_to_box": ("point", "box"), "point_to_ellipsoid": ("point", "ellipsoid"),
    "point_to_cylinder": ("point", "cylinder"),
    "line_to_line": ("line", "line"), "line_to_line_segment": ("line", "segment"), "line_to_plane": ("line", "plane"),
    "line_to_triangle": ("line", "triangle"), "line_to_rectangle": ("line", "rectangle"), "line_to_circle": ("line", "circle"),
    "line_to_box": ("line", "box"),
    "line_segment_to_line_segment": ("segment", "segment"), "line_segment_to_plane": ("segment", "plane"),
    "line_segment_to_triangle": ("segment", "triangle"), "line_segment_to_rectangle": ("segment", "rectangle"),
    "line_segment_to_circle": ("segment", "circle"), "line_segment_to_box": ("segment", "box"),
    "plane_to_plane": ("plane", "plane"), "plane_to_triangle": ("plane", "triangle"), "plane_to_rectangle": ("plane", "rectangle"),
    "plane_to_box": ("plane", "box"), "plane_to_ellipsoid": ("plane", "ellipsoid"), "plane_to_cylinder": ("plane", "cylinder"),
    "triangle_to_triangle": ("triangle", "triangle"), "triangle_to_rectangle": ("triangle", "rectangle"),
    "rectangle_to_rectangle": ("rectangle", "rectangle"), "rectangle_to_box": ("rectangle", "box"),
    "disk_to_disk": ("disk", "disk"),
}
# extra variant with a keyword argument
VARIANTS = {"point_to_ellipsoid[surface]": ("point_to_ellipsoid", ("point", "ellipsoid_surface"), {"distance_to_surface": True})}


def call(name, p1, p2, kwargs=None):
    from distance3d import distance as D
    fn = getattr(D, name)
    args = list(p1.args) + list(p2.args)
    return fn(*args, **(kwargs or {}))


def pair_L(p1, p2):
    L = 1.0
    for p in (p1, p2):
        L = max(L, float(p.orc.scale()) if hasattr(p.orc, "scale") else 1.0, float(np.linalg.norm(p.orc.center())))
    L = max(L, float(np.linalg.norm(p1.orc.center() - p2.orc.center())))
    return L


def in_band(p1, p2, lo=0.0, hi=1e-2):
    """True if some pair of characteristic directions (line directions, normals, edges, axes) of the two
    primitives is nearly-but-not-exactly parallel or perpendicular: |cos| or |sin| strictly inside (lo, hi)"""
    for a in p1.dirs:
        for b in p2.dirs:
            c = abs(float(a @ b))
            s = float(np.linalg.norm(np.cross(a, b)))
            if lo < c < hi or lo < s < hi:
                return True
    return False


# ---------------------------------------------------------------------------
# reference minimum distance

def _line_vs_convex(line, orc, L):
    """min over t of dist_X(p + t d): convex in t -> ternary search"""
    c = orc.center()
    t0 = float((c - line.p) @ line.d)
    R = float(orc.scale()) * 2 + 1.0
    lo, hi = t0 - R, t0 + R
    f = lambda t: orc.dist(line.p + t * line.d)  # noqa: E731
    for _ in range(200):
        m1 = lo + (hi - lo) / 3; m2 = hi - (hi - lo) / 3
        if f(m1) <= f(m2):
            hi = m2
        else:
            lo = m1
    t = 0.5 * (lo + hi)
    return min(f(t), f(lo), f(hi))


def _plane_vs_convex(pl, orc):
    smin = -orc.h(-pl.n) - float(pl.n @ pl.p)
    smax = orc.h(pl.n) - float(pl.n @ pl.p)
    if smin > 0:
        return smin
    if smax < 0:
        return -smax
    return 0.0


def _circle_ref(cir, other, L):
    """(upper bound, resolution): dense sampling of the circle against the exact distance of the other
    primitive, refined by golden-section on the angle around the best samples"""
    m = 20000
    X, (x, y) = cir.sample(m)
    D = np.array([other.dist(p) for p in X[::20]])
    order = np.argsort(D)[:4]
    best = float(D.min())

    def f(t):
        return other.dist(cir.c + cir.r * (math.cos(t) * x + math.sin(t) * y))
    for k in order:
        t0 = 2 * np.pi * (k * 20) / m
        lo, hi = t0 - 2 * np.pi * 25 / m, t0 + 2 * np.pi * 25 / m
        g = (math.sqrt(5) - 1) / 2
        for _ in range(80):
            a = hi - g * (hi - lo); b = lo + g * (hi - lo)
            if f(a) <= f(b):
                hi = b
            else:
                lo = a
        best = min(best, f(0.5 * (lo + hi)))
    return best


def reference(p1, p2, L):
    """(d_ref, kind): the true minimum distance or a value that is provably <= every pair distance plus
    a tiny resolution error; None if undecidable"""
    o1, o2 = p1.orc, p2.orc
    k1, k2 = p1.kind, p2.kind
    if k1 == "point" and k2 != "point":
        return p2.dist(p1.args[0]), "closed-form"
    # order so that special kinds come first
    if k2 in ("plane",) and k1 not in ("plane",):
        o1, o2, k1, k2 = o2, o1, k2, k1
    if k2 == "line" and k1 not in ("plane", "line"):
        o1, o2, k1, k2 = o2, o1, k2, k1
    if k1 == "plane":
        if k2 == "plane":
            s = float(np.linalg.norm(np.cross(o1.n, o2.n)))
            return (abs(o1.signed(o2.p)) if s == 0.0 else 0.0), "closed-form"
        if k2 == "line":
            c = float(o2.d @ o1.n)
            return (abs(o1.signed(o2.p)) if c == 0.0 else 0.0), "closed-form"
        if k2 == "circle":
            return None, "unsupported"
        return _plane_vs_convex(o1, o2), "support"
    if k1 == "line":
        if k2 == "line":
            n = np.cross(o1.d, o2.d)
            nn = float(np.linalg.norm(n))
            if nn == 0.0:
                return o1.dist(o2.p), "closed-form"
            return abs(float((o2.p - o1.p) @ n)) / nn, "closed-form"
        if k2 == "circle":
            return _circle_ref(o2, o1, L), "sampled"
        return _line_vs_convex(o1, o2, L), "ternary"
    if k2 == "circle" or k1 == "circle":
        cir, oth = (o2, o1) if k2 == "circle" else (o1, o2)
        return _circle_ref(cir, oth, L), "sampled"
    r = refsolve.ref_distance(o1, o2, L, eps_rel=1e-9, max_iter=300)
    if not r["closed"]:
        return None, "open"
    return r["ub"], "certificate"     # a feasible pair: the true minimum is <= ub (sound for 'd is not above the minimum')


def rebuild(kind, args):
    """Prim from library arguments (used after translating a primitive)"""
    f = lambda a: np.array(a, dtype=float, order="C")  # noqa: E731
    if kind == "point":
        return Prim(kind, (f(args[0]),), hull([args[0]]), [])
    if kind == "line":
        return Prim(kind, (f(args[0]), f(args[1])), PLine(args[0], args[1]), [args[1]])
    if kind == "segment":
        d = np.asarray(args[1], float) - np.asarray(args[0], float)
        return Prim(kind, (f(args[0]), f(args[1])), hull([args[0], args[1]]), [d / max(1e-300, np.linalg.norm(d))])
    if kind == "plane":
        return Prim(kind, (f(args[0]), f(args[1])), PPlane(args[0], args[1]), [args[1]])
    if kind == "triangle":
        V = np.asarray(args[0], float)
        n = np.cross(V[1] - V[0], V[2] - V[0]); nn = np.linalg.norm(n)
        dirs = [n / nn] if nn > 0 else []
        dirs += [(V[(i + 1) % 3] - V[i]) / max(1e-300, np.linalg.norm(V[(i + 1) % 3] - V[i])) for i in range(3)]
        return Prim(kind, (f(V),), hull(V), dirs)
    if kind == "rectangle":
        c, axes, l = (np.asarray(a, float) for a in args)
        V = [c + sx * 0.5 * l[0] * axes[0] + sy * 0.5 * l[1] * axes[1] for sx in (-1, 1) for sy in (-1, 1)]
        return Prim(kind, (f(c), f(axes), f(l)), hull(V), [np.cross(axes[0], axes[1]), axes[0], axes[1]])
    if kind in ("circle", "disk"):
        c, r, n = args
        orc = PCircle(c, r, n) if kind == "circle" else O.ODisk(c, r, n)
        return Prim(kind, (f(c), float(r), f(n)), orc, [np.asarray(n, float)])
    if kind == "box":
        T, size = args
        return Prim(kind, (f(T), f(size)), O.OBox(T, size), [np.asarray(T, float)[:3, i] for i in range(3)])
    if kind in ("ellipsoid", "ellipsoid_surface"):
        T, radii = args
        orc = O.OEllipsoid(T, radii) if kind == "ellipsoid" else PEllipsoidSurface(T, radii)
        return Prim(kind, (f(T), f(radii)), orc, [np.asarray(T, float)[:3, i] for i in range(3)])
    if kind == "cylinder":
        T, r, ln = args
        return Prim(kind, (f(T), float(r), float(ln)), O.OCylinder(T, r, ln), [np.asarray(T, float)[:3, 2]])
    raise ValueError(kind)


def translated(p, shift):
    shift = np.asarray(shift, float)
    k = p.kind
    a = [np.array(x, dtype=float) if isinstance(x, np.ndarray) else x for x in p.args]
    if k in ("point", "line", "plane", "rectangle", "circle", "disk"):
        a[0] = a[0] + shift
    elif k == "segment":
        a[0] = a[0] + shift; a[1] = a[1] + shift
    elif k == "triangle":
        a[0] = a[0] + shift
    else:
        a[0][:3, 3] += shift
    return rebuild(k, a)


def some_point_of(p, rng):
    """a point of the primitive (random interior / on-curve point)"""
    k = p.kind
    a = p.args
    if k == "point":
        return np.array(a[0])
    if k == "line":
        return a[0] + a[1] * rng.normal() * 3
    if k == "segment":
        t = rng.uniform(0, 1) if rng.random() < 0.7 else float(rng.choice([0.0, 1.0]))
        return a[0] + t * (a[1] - a[0])
    if k == "plane":
        v = rng.normal(size=3) * 3
        return a[0] + v - (v @ a[1]) * a[1]
    if k == "triangle":
        w = rng.dirichlet(np.ones(3))
        if rng.random() < 0.2:
            w = np.array([0.5, 0.5, 0.0])[rng.permutation(3)]
        return w @ a[0]
    if k == "rectangle":
        u = rng.uniform(-0.5, 0.5, size=2)
        return a[0] + u[0] * a[2][0] * a[1][0] + u[1] * a[2][1] * a[1][1]
    if k in ("circle", "disk"):
        c, r, n = a
        e = np.eye(3)[int(np.argmin(np.abs(n)))]
        x = np.cross(n, e); x /= np.linalg.norm(x); y = np.cross(n, x)
        t = rng.uniform(0, 2 * np.pi)
        rr = r if k == "circle" else r * math.sqrt(rng.uniform(0, 1))
        return c + rr * (math.cos(t) * x + math.sin(t) * y)
    if k == "box":
        T, size = a
        return T[:3, 3] + T[:3, :3] @ (rng.uniform(-0.5, 0.5, size=3) * size)
    if k in ("ellipsoid", "ellipsoid_surface"):
        T, radii = a
        v = gen.rand_dir(rng) * (rng.uniform(0, 1) ** (1 / 3) if k == "ellipsoid" else 1.0)
        return T[:3, 3] + T[:3, :3] @ (v * radii)
    if k == "cylinder":
        T, r, ln = a
        t = rng.uniform(0, 2 * np.pi); rr = r * math.sqrt(rng.uniform(0, 1))
        return T[:3, 3] + T[:3, :3] @ np.array([rr * math.cos(t), rr * math.sin(t), rng.uniform(-0.5, 0.5) * ln])
    raise ValueError(k)


def has_sliver(*ps):
    """True if one of the primitives is a triangle whose smallest altitude is below 1e-3 of its longest edge"""
    for p in ps:
        if p.kind == "triangle":
            V = np.asarray(p.args[0], float)
            e = [float(np.linalg.norm(V[(i + 1) % 3] - V[i])) for i in range(3)]
            area2 = float(np.linalg.norm(np.cross(V[1] - V[0], V[2] - V[0])))
            if max(e) > 0 and area2 / max(e) < 1e-3 * max(e):
                return True
    return False


def transformed(p, G=None, s=1.0):
    """primitive moved by the rigid motion G (4x4) and then scaled about the origin by s"""
    G = np.eye(4) if G is None else np.asarray(G, float)
    R = G[:3, :3]; t = G[:3, 3]
    pt = lambda x: s * (R @ np.asarray(x, float) + t)  # noqa: E731
    dr = lambda x: R @ np.asarray(x, float)  # noqa: E731
    k = p.kind; a = p.args
    if k == "point":
        return rebuild(k, (pt(a[0]),))
    if k in ("line", "plane"):
        return rebuild(k, (pt(a[0]), dr(a[1])))
    if k == "segment":
        return rebuild(k, (pt(a[0]), pt(a[1])))
    if k == "triangle":
        return rebuild(k, (np.array([pt(v) for v in a[0]]),))
    if k == "rectangle":
        return rebuild(k, (pt(a[0]), np.array([dr(a[1][0]), dr(a[1][1])]), np.asarray(a[2], float) * s))
    if k in ("circle", "disk"):
        return rebuild(k, (pt(a[0]), float(a[1]) * s, dr(a[2])))
    T = G @ np.asarray(a[0], float)
    T[:3, 3] *= s
    if k == "box":
        return rebuild(k, (T, np.asarray(a[1], float) * s))
    if k in ("ellipsoid", "ellipsoid_surface"):
        return rebuild(k, (T, np.asarray(a[1], float) * s))
    if k == "cylinder":
        return rebuild(k, (T, float(a[1]) * s, float(a[2]) * s))
    raise ValueError(k)


def feature_sizes(p):
    """the feature sizes of a primitive that the domain P bounds to [0.2, 1e2] (radii, edge lengths, side lengths);
    empty for points, lines and planes"""
    k = p.kind; a = p.args
    if k == "segment":
        return [float(np.linalg.norm(np.asarray(a[1]) - np.asarray(a[0])))]
    if k == "triangle":
        V = np.asarray(a[0], float)
        return [float(np.linalg.norm(V[i] - V[(i + 1) % 3])) for i in range(3)]
    if k == "rectangle":
        return [float(x) for x in a[2]]
    if k in ("circle", "disk"):
        return [float(a[1])]
    if k == "box":
        return [float(x) for x in a[1]]
    if k in ("ellipsoid", "ellipsoid_surface"):
        return [float(x) for x in a[1]]
    if k == "cylinder":
        return [float(a[1]), float(a[2])]
    return []
