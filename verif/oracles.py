"""Independent shape oracles, written from the mathematical definitions.

Nothing in here imports distance3d. A shape is described by a plain `spec`
dict (kind + parameters); `oracle(spec)` returns an object with

    h(n)      support value  max_{x in S} x.n          (any n, not nec. unit)
    sup(n)    a support point attaining h(n)
    dist(p)   Euclidean distance of p to S (0 inside)
    depth(p)  certified lower bound of the radius of a ball around p that is
              contained in S (<= 0 when p is not known to be inside)
    center()  a reference point of S
    scale()   largest feature size

`verif.gen` builds the library's colliders from the same specs.
"""
import math

import os

import numpy as np
from scipy.optimize import nnls
from scipy.spatial import ConvexHull

KINDS = ["sphere", "ellipsoid", "capsule", "cylinder", "cone", "box", "disk", "ellipse", "mesh", "hull"]


def unit(v):
    v = np.asarray(v, float)
    return v / np.linalg.norm(v)


def pose(R, t):
    T = np.eye(4)
    T[:3, :3] = R
    T[:3, 3] = t
    return T


# ----------------------------------------------------------------------------
# low level helpers

def _dist_point_poly2d(p, poly):
    """distance from 2-D point to convex polygon (ccw list); 0 if inside."""
    n = len(poly)
    inside = True
    best = np.inf
    for i in range(n):
        a, b = poly[i], poly[(i + 1) % n]
        e = b - a
        if e[0] * (p[1] - a[1]) - e[1] * (p[0] - a[0]) < 0:
            inside = False
        t = min(1.0, max(0.0, float(np.dot(p - a, e) / np.dot(e, e))))
        best = min(best, float(np.linalg.norm(p - (a + t * e))))
    return 0.0 if inside else best


def dist_ellipsoid_surface(y, e):
    """Distance from point y (outside or on the boundary) to the ellipsoid /
    ellipse with semi-axes e, any dimension: root of
    sum (e_i y_i / (t + e_i^2))^2 = 1, t >= 0, by bisection (200 steps)."""
    y = np.abs(np.asarray(y, float))
    e = np.asarray(e, float)
    e2 = e * e

    def f(t):
        return float(np.sum((e * y / (t + e2)) ** 2) - 1.0)
    lo = 0.0
    hi = float(max(e) * np.linalg.norm(y) + 1.0)
    while f(hi) > 0:
        hi *= 2
    for _ in range(200):
        mid = 0.5 * (lo + hi)
        if f(mid) > 0:
            lo = mid
        else:
            hi = mid
    t = 0.5 * (lo + hi)
    x = e2 * y / (t + e2)
    return float(np.linalg.norm(x - y))


def dist_point_hull(p, V):
    """distance from p to conv(V): NNLS with a heavily weighted sum-to-one row."""
    V = np.asarray(V, float)
    p = np.asarray(p, float)
    c = V.mean(axis=0)
    sc = max(1e-300, float(np.abs(V - c).max()), float(np.abs(p - c).max()))
    W = ((V - c) / sc).T
    q = (p - c) / sc
    M = 1e3
    A = np.vstack([W, M * np.ones((1, W.shape[1]))])
    b = np.concatenate([q, [M]])
    lam, _ = nnls(A, b, maxiter=30 * W.shape[1] + 200)
    s = lam.sum()
    if s <= 0:
        return float(np.min(np.linalg.norm(V - p, axis=1)))
    lam = lam / s
    return float(np.linalg.norm(W @ lam - q) * sc)


# ----------------------------------------------------------------------------
# oracle classes

class Shape:
    flat = False

    def hn(self, n):
        """support value for a *unit* vector"""
        return self.h(n)


class OSphere(Shape):
    def __init__(s, c, r):
        s.c = np.array(c, float); s.r = float(r)

    def h(s, n):
        return float(s.c @ n + s.r * np.linalg.norm(n))

    def sup(s, n):
        return s.c + s.r * unit(n)

    def dist(s, p):
        return max(0.0, float(np.linalg.norm(p - s.c)) - s.r)

    def depth(s, p):
        return s.r - float(np.linalg.norm(p - s.c))

    def center(s):
        return s.c.copy()

    def scale(s):
        return 2 * s.r

    def deep_point(s):
        return s.c.copy(), s.r


class OPosed(Shape):
    def __init__(s, T):
        s.T = np.array(T, float); s.R = s.T[:3, :3].copy(); s.t = s.T[:3, 3].copy()

    def loc(s, p):
        return s.R.T @ (np.asarray(p, float) - s.t)

    def glob(s, q):
        return s.t + s.R @ q

    def h(s, n):
        return float(s.t @ n + s.hl(s.R.T @ n))

    def sup(s, n):
        return s.glob(s.supl(s.R.T @ np.asarray(n, float)))

    def dist(s, p):
        return float(s.dl(s.loc(p)))

    def depth(s, p):
        return float(s.depl(s.loc(p)))

    def center(s):
        return s.t.copy()

    def deep_point(s):
        q, r = s.deepl()
        return s.glob(q), r


def _sgn(x):
    return 1.0 if x >= 0 else -1.0


class OBox(OPosed):
    def __init__(s, T, size):
        super().__init__(T); s.hs = 0.5 * np.array(size, float)

    def hl(s, n):
        return float(np.abs(n) @ s.hs)

    def supl(s, n):
        return np.array([_sgn(n[0]) * s.hs[0], _sgn(n[1]) * s.hs[1], _sgn(n[2]) * s.hs[2]])

    def dl(s, p):
        return float(np.linalg.norm(np.maximum(np.abs(p) - s.hs, 0)))

    def depl(s, p):
        return float(np.min(s.hs - np.abs(p)))

    def deepl(s):
        return np.zeros(3), float(min(s.hs))

    def scale(s):
        return 2 * float(max(s.hs))

    def vertices(s):
        out = []
        for a in (-1, 1):
            for b in (-1, 1):
                for c in (-1, 1):
                    out.append(s.glob(np.array([a, b, c]) * s.hs))
        return np.array(out)


class OCapsule(OPosed):
    def __init__(s, T, r, h):
        super().__init__(T); s.r = float(r); s.hh = 0.5 * float(h)

    def hl(s, n):
        return abs(n[2]) * s.hh + s.r * float(np.linalg.norm(n))

    def supl(s, n):
        return np.array([0, 0, _sgn(n[2]) * s.hh]) + s.r * unit(n)

    def _seg(s, p):
        z = min(s.hh, max(-s.hh, p[2]))
        return math.sqrt(p[0] ** 2 + p[1] ** 2 + (p[2] - z) ** 2)

    def dl(s, p):
        return max(0.0, s._seg(p) - s.r)

    def depl(s, p):
        return s.r - s._seg(p)

    def deepl(s):
        return np.zeros(3), s.r

    def scale(s):
        return max(2 * s.r, 2 * s.hh + 2 * s.r)


class OCylinder(OPosed):
    def __init__(s, T, r, l):
        super().__init__(T); s.r = float(r); s.hl_ = 0.5 * float(l)

    def hl(s, n):
        return abs(n[2]) * s.hl_ + s.r * math.hypot(n[0], n[1])

    def supl(s, n):
        rho = math.hypot(n[0], n[1])
        xy = (np.array([n[0], n[1]]) / rho * s.r) if rho > 0 else np.array([s.r, 0.0])
        return np.array([xy[0], xy[1], _sgn(n[2]) * s.hl_])

    def dl(s, p):
        rho = math.hypot(p[0], p[1])
        return math.hypot(max(rho - s.r, 0), max(abs(p[2]) - s.hl_, 0))

    def depl(s, p):
        return min(s.r - math.hypot(p[0], p[1]), s.hl_ - abs(p[2]))

    def deepl(s):
        return np.zeros(3), min(s.r, s.hl_)

    def scale(s):
        return max(2 * s.r, 2 * s.hl_)


class OCone(OPosed):
    """base disk at z=0 (radius r), apex at z=h."""
    def __init__(s, T, r, h):
        super().__init__(T); s.r = float(r); s.hgt = float(h)

    def hl(s, n):
        return max(s.r * math.hypot(n[0], n[1]), n[2] * s.hgt)

    def supl(s, n):
        rho = math.hypot(n[0], n[1])
        if s.r * rho >= n[2] * s.hgt:
            xy = (np.array([n[0], n[1]]) / rho * s.r) if rho > 0 else np.array([s.r, 0.0])
            return np.array([xy[0], xy[1], 0.0])
        return np.array([0.0, 0.0, s.hgt])

    def dl(s, p):
        rho = math.hypot(p[0], p[1])
        poly = [np.array([-s.r, 0.0]), np.array([s.r, 0.0]), np.array([0.0, s.hgt])]
        return _dist_point_poly2d(np.array([rho, p[2]]), poly)

    def depl(s, p):
        rho = math.hypot(p[0], p[1])
        slant = (s.hgt * (s.r - rho) - s.r * p[2]) / math.hypot(s.hgt, s.r)
        return min(p[2], slant)

    def deepl(s):
        rin = s.r * s.hgt / (s.r + math.hypot(s.r, s.hgt))
        return np.array([0.0, 0.0, rin]), rin

    def center(s):
        return s.glob(np.array([0.0, 0.0, 0.5 * s.hgt]))

    def scale(s):
        return max(2 * s.r, s.hgt)


class OEllipsoid(OPosed):
    def __init__(s, T, radii):
        super().__init__(T); s.e = np.array(radii, float)

    def hl(s, n):
        return float(np.linalg.norm(s.e * n))

    def supl(s, n):
        return s.e * s.e * n / float(np.linalg.norm(s.e * n))

    def dl(s, p):
        if np.sum((p / s.e) ** 2) <= 1.0:
            return 0.0
        return dist_ellipsoid_surface(p, s.e)

    def depl(s, p):
        return float(min(s.e) * (1.0 - np.linalg.norm(p / s.e)))

    def deepl(s):
        return np.zeros(3), float(min(s.e))

    def scale(s):
        return 2 * float(max(s.e))


class ODisk(Shape):
    flat = True

    def __init__(s, c, r, n):
        s.c = np.array(c, float); s.r = float(r); s.n = np.array(n, float)

    def h(s, d):
        dp = d - (d @ s.n) * s.n
        return float(s.c @ d + s.r * np.linalg.norm(dp))

    def _basis(s):
        if not hasattr(s, "_xy"):
            a = np.eye(3)[int(np.argmin(np.abs(s.n)))]
            x = np.cross(s.n, a); x /= np.linalg.norm(x)
            y = np.cross(s.n, x); y /= np.linalg.norm(y)
            s._xy = (x, y)
        return s._xy

    def sup(s, d):
        # built from an in-plane basis so that the returned point is a rim point of the disk
        # (feasible) even when d is almost parallel to the normal
        d = np.asarray(d, float)
        x, y = s._basis()
        q0, q1 = float(x @ d), float(y @ d)
        nn = math.hypot(q0, q1)
        if nn < 1e-300:
            return s.c.copy()
        return s.c + (s.r * q0 / nn) * x + (s.r * q1 / nn) * y

    def dist(s, p):
        v = p - s.c; z = float(v @ s.n); rho = float(np.linalg.norm(v - z * s.n))
        return math.hypot(max(rho - s.r, 0), z)

    def depth(s, p):
        return -s.dist(p)

    def center(s):
        return s.c.copy()

    def scale(s):
        return 2 * s.r

    def deep_point(s):
        return s.c.copy(), 0.0


class OEllipse(Shape):
    flat = True

    def __init__(s, c, axes, radii):
        s.c = np.array(c, float); s.A = np.array(axes, float); s.e = np.array(radii, float)

    def h(s, d):
        return float(s.c @ d + np.linalg.norm(s.e * (s.A @ d)))

    def sup(s, d):
        q = s.A @ np.asarray(d, float)
        nn = float(np.linalg.norm(s.e * q))
        if nn < 1e-300:
            return s.c.copy()
        return s.c + (s.e * s.e * q / nn) @ s.A

    def dist(s, p):
        v = p - s.c; uv = s.A @ v
        z = float(np.linalg.norm(v - uv @ s.A))
        if (uv[0] / s.e[0]) ** 2 + (uv[1] / s.e[1]) ** 2 <= 1.0:
            d2 = 0.0
        else:
            d2 = dist_ellipsoid_surface(uv, s.e)
        return math.hypot(d2, z)

    def depth(s, p):
        return -s.dist(p)

    def center(s):
        return s.c.copy()

    def scale(s):
        return 2 * float(max(s.e))

    def deep_point(s):
        return s.c.copy(), 0.0


class OHull(Shape):
    def __init__(s, V):
        s.V = np.array(V, float)
        s._eq = None
        s._flat = None

    def h(s, n):
        return float(np.max(s.V @ n))

    def sup(s, n):
        return s.V[int(np.argmax(s.V @ n))].copy()

    def dist(s, p):
        d = dist_point_hull(p, s.V)
        # the NNLS distance is an upper bound that can be ~1e-9 relative too large when the optimum is not unique (a
        # point in front of a face: flagged a correct Margin support point in the thorough tier). If the closest point
        # is the projection on the plane of the most violated facet and that projection belongs to the hull, the
        # facet distance is exact.
        if d > 0:
            eq = s.equations()
            if eq is not None:
                p = np.asarray(p, float)
                sd = eq[:, :3] @ p + eq[:, 3]
                i = int(np.argmax(sd))
                if sd[i] > 0:
                    q = p - sd[i] * eq[i, :3]
                    if np.all(eq[:, :3] @ q + eq[:, 3] <= 1e-12 * max(1.0, float(np.abs(s.V).max()))):
                        return float(min(d, sd[i]))
        return d

    def equations(s):
        """Qhull facet equations (n, off) with n.x + off <= 0 inside, or None if
        the hull is degenerate (flat)."""
        if s._flat is None:
            try:
                ch = ConvexHull(s.V)
                s._eq = ch.equations.copy()
                s._hv = ch.vertices.copy()
                s._flat = False
            except Exception:  # noqa: BLE001  (QhullError: flat / too few points)
                s._flat = True
        return None if s._flat else s._eq

    @property
    def flat(s):
        return s.equations() is None

    def depth(s, p):
        eq = s.equations()
        if eq is None:
            return -s.dist(p)
        return float(np.min(-(eq[:, :3] @ p + eq[:, 3])))

    def center(s):
        return s.V.mean(axis=0)

    def scale(s):
        return float(np.ptp(s.V, axis=0).max())

    def deep_point(s):
        eq = s.equations()
        if eq is None:
            return s.V.mean(axis=0), 0.0
        c = s.V[s._hv].mean(axis=0)
        # Chebyshev-like improvement is not needed: centroid depth is a valid lower bound
        return c, s.depth(c)

    def vertices(s):
        return s.V


class OMargin(Shape):
    def __init__(s, base, m):
        s.b = base; s.m = float(m)

    @property
    def flat(s):
        return False

    def h(s, n):
        return s.b.h(n) + s.m * float(np.linalg.norm(n))

    def sup(s, n):
        return s.b.sup(n) + s.m * unit(n)

    def dist(s, p):
        return max(0.0, s.b.dist(p) - s.m)

    def depth(s, p):
        d = s.b.dist(p)
        if d > 0:
            return s.m - d
        return max(s.b.depth(p), 0.0) + s.m

    def center(s):
        return s.b.center()

    def scale(s):
        return s.b.scale() + 2 * s.m

    def deep_point(s):
        p, r = s.b.deep_point()
        return p, max(r, 0.0) + s.m


# ----------------------------------------------------------------------------
# specs

def oracle(spec):
    k = spec["kind"]
    if k == "margin":
        return OMargin(oracle(spec["base"]), spec["m"])
    if k == "sphere":
        return OSphere(spec["c"], spec["r"])
    if k == "box":
        return OBox(spec["T"], spec["size"])
    if k == "capsule":
        return OCapsule(spec["T"], spec["r"], spec["h"])
    if k == "cylinder":
        return OCylinder(spec["T"], spec["r"], spec["l"])
    if k == "cone":
        return OCone(spec["T"], spec["r"], spec["h"])
    if k == "ellipsoid":
        return OEllipsoid(spec["T"], spec["radii"])
    if k == "disk":
        return ODisk(spec["c"], spec["r"], spec["n"])
    if k == "ellipse":
        return OEllipse(spec["c"], spec["axes"], spec["radii"])
    if k == "hull":
        return OHull(spec["V"])
    if k == "mesh":
        T = np.asarray(spec["T"], float)
        return OHull(np.asarray(spec["V"], float) @ T[:3, :3].T + T[:3, 3])
    raise ValueError(k)


def base_kind(spec):
    return base_kind(spec["base"]) if spec["kind"] == "margin" else spec["kind"]


def name(spec):
    if spec["kind"] == "margin":
        return "margin(" + name(spec["base"]) + ")"
    return spec["kind"]


def moved(spec, G):
    """spec transformed by the rigid motion G (4x4): x -> R x + t."""
    G = np.asarray(G, float); R = G[:3, :3]; t = G[:3, 3]
    k = spec["kind"]
    s = dict(spec)
    if k == "margin":
        s["base"] = moved(spec["base"], G)
    elif k == "sphere":
        s["c"] = R @ spec["c"] + t
    elif k in ("box", "capsule", "cylinder", "cone", "ellipsoid", "mesh"):
        s["T"] = G @ np.asarray(spec["T"], float)
    elif k == "disk":
        s["c"] = R @ spec["c"] + t; s["n"] = R @ spec["n"]
    elif k == "ellipse":
        s["c"] = R @ spec["c"] + t; s["axes"] = np.asarray(spec["axes"], float) @ R.T
    elif k == "hull":
        s["V"] = np.asarray(spec["V"], float) @ R.T + t
    else:
        raise ValueError(k)
    return s


def translated(spec, shift):
    G = np.eye(4); G[:3, 3] = shift
    return moved(spec, G)


def scaled(spec, f):
    """uniform scaling of the whole scene about the origin by f > 0."""
    k = spec["kind"]
    s = dict(spec)
    if k == "margin":
        s["base"] = scaled(spec["base"], f); s["m"] = spec["m"] * f
        return s
    if "T" in spec:
        T = np.array(spec["T"], float); T[:3, 3] *= f; s["T"] = T
    if "c" in spec:
        s["c"] = np.asarray(spec["c"], float) * f
    if k == "sphere":
        s["r"] = spec["r"] * f
    elif k == "box":
        s["size"] = np.asarray(spec["size"], float) * f
    elif k == "capsule":
        s["r"] = spec["r"] * f; s["h"] = spec["h"] * f
    elif k == "cylinder":
        s["r"] = spec["r"] * f; s["l"] = spec["l"] * f
    elif k == "cone":
        s["r"] = spec["r"] * f; s["h"] = spec["h"] * f
    elif k == "ellipsoid":
        s["radii"] = np.asarray(spec["radii"], float) * f
    elif k == "disk":
        s["r"] = spec["r"] * f
    elif k == "ellipse":
        s["radii"] = np.asarray(spec["radii"], float) * f
    elif k == "hull":
        s["V"] = np.asarray(spec["V"], float) * f
    elif k == "mesh":
        s["V"] = np.asarray(spec["V"], float) * f
    return s


def describe(spec):
    """JSON-able rendering with full precision (repr of floats)."""
    out = {}
    for k, v in spec.items():
        if k == "base":
            out[k] = describe(v)
        elif isinstance(v, np.ndarray):
            if v.size > 60:
                out[k] = {"shape": list(v.shape), "head": v.ravel()[:12].tolist()}
            else:
                out[k] = v.tolist()
        elif isinstance(v, (float, np.floating)):
            out[k] = float(v)
        else:
            out[k] = v
    return out


def scene_L(oracles, extra_points=(), k=None):
    """Scale of a scene for tolerances k*L.

    The properties define L = max(1, largest feature size, distance between the centres). Without k the distance of
    the scene from the world origin is included as well (rounding error grows with the coordinate magnitude), which
    only ever makes a check more lenient than the property. With the tolerance factor k of the caller the origin
    distance is kept only as a rounding allowance of 1e-9 * coordinate magnitude:
        k * L = k * L_property + min(k, 1e-9) * (L_with_origin - L_property)
    so checks with k >= 1e-6 see errors that grow with the distance from the origin (a blind spot that a seeded
    change exploited), while checks at k = 1e-9 keep their old tolerance."""
    L = 1.0
    cs = [o.center() for o in oracles]
    for o in oracles:
        L = max(L, o.scale())
    for i, c in enumerate(cs):
        for c2 in cs[i + 1:]:
            L = max(L, float(np.linalg.norm(c - c2)))
    Lfull = L
    for c in cs:
        Lfull = max(Lfull, float(np.linalg.norm(c)))
    for p in extra_points:
        Lfull = max(Lfull, float(np.linalg.norm(p)))
    if k is None:
        return Lfull
    return L + min(1.0, 1e-9 / k) * (Lfull - L)


def extents(spec):
    """principal extents (largest first) of the shape, from its parameters (SVD for vertex sets)"""
    k = spec["kind"]
    if k == "margin":
        e = extents(spec["base"])
        return [x + 2 * spec["m"] for x in e]
    if k == "sphere":
        e = [2 * spec["r"]] * 3
    elif k == "box":
        e = list(np.asarray(spec["size"], float))
    elif k == "ellipsoid":
        e = list(2 * np.asarray(spec["radii"], float))
    elif k == "capsule":
        e = [spec["h"] + 2 * spec["r"], 2 * spec["r"], 2 * spec["r"]]
    elif k == "cylinder":
        e = [spec["l"], 2 * spec["r"], 2 * spec["r"]]
    elif k == "cone":
        e = [spec["h"], 2 * spec["r"], 2 * spec["r"]]
    elif k == "disk":
        e = [2 * spec["r"], 2 * spec["r"], 0.0]
    elif k == "ellipse":
        e = list(2 * np.asarray(spec["radii"], float)) + [0.0]
    else:
        V = np.asarray(spec["V"], float)
        V = V - V.mean(axis=0)
        if len(V) < 2:
            e = [0.0, 0.0, 0.0]
        else:
            sv = np.linalg.svd(V, compute_uv=False)
            sv = list(sv) + [0.0] * (3 - len(sv))
            # singular values -> approximate extents of the point cloud
            e = [float(2 * x / math.sqrt(max(1, len(V)) / 3.0)) for x in sv[:3]]
    return sorted([float(x) for x in e], reverse=True)


def aspect(spec):
    """largest / smallest non-zero principal extent (1 for a sphere); flat directions are ignored"""
    e = [x for x in extents(spec) if x > 0]
    if len(e) < 2:
        return 1.0
    return e[0] / e[-1]


def scene_aspect(*specs):
    """largest / smallest non-zero principal extent over all shapes of a scene (a 40 long box next to a cone of
    diameter 0.08 has scene aspect 500 although each shape alone is moderate)"""
    e = [x for sp in specs for x in extents(sp) if x > 0]
    if len(e) < 2:
        return 1.0
    return max(e) / min(e)


def aspect_bucket(a):
    if a < 10:
        return "<10"
    if a < 100:
        return "10-100"
    return ">=100"
