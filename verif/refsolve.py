"""Independent reference solvers with two-sided certificates.

ref_distance(oA, oB): distance between two convex oracle shapes as an
interval [lb, ub] that is sound whatever the iteration does:
  * ub = |sum_i lam_i (a_i - b_i)| with lam >= 0, sum lam = 1 and a_i in A,
    b_i in B: a feasible pair, hence an upper bound;
  * lb = max over visited unit directions n of  -(h_A(n) + h_B(-n))
    (a separating slab), hence a lower bound (0 if none separates).
If the interval does not close the caller treats the case as inconclusive.

polytope_depth(VA, VB): exact penetration depth of two vertex sets via the
Qhull facets of the Minkowski difference.
"""
import numpy as np
from scipy.optimize import nnls
from scipy.spatial import ConvexHull


def _min_norm(W):
    """min-norm point of conv(rows of W): weights lam (>=0, sum 1)."""
    k = len(W)
    if k == 1:
        return np.ones(1)
    sc = max(1e-300, float(np.abs(W).max()))
    A = np.vstack([(W / sc).T, 1e3 * np.ones((1, k))])
    b = np.concatenate([np.zeros(3), [1e3]])
    lam, _ = nnls(A, b, maxiter=50 * k + 200)
    s = lam.sum()
    if not s > 0:
        lam = np.zeros(k); lam[int(np.argmin(np.einsum("ij,ij->i", W, W)))] = 1.0
        return lam
    return lam / s


def ref_distance(oA, oB, L=1.0, eps_rel=1e-8, max_iter=400, keep=48):
    """returns dict(lb, ub, a, b, iters, closed)"""
    eps = eps_rel * L
    n = oB.center() - oA.center()
    if np.linalg.norm(n) < 1e-12 * L:
        n = np.array([1.0, 0.0, 0.0])
    n = n / np.linalg.norm(n)
    As = []; Bs = []
    lb = 0.0
    ub = np.inf
    lam = None
    best = None
    it = 0
    for it in range(1, max_iter + 1):
        a = oA.sup(n); b = oB.sup(-n)
        # separating slab along n: every x in A has x.n <= h_A(n), every y in B has y.n >= -h_B(-n)
        gap = -(oA.h(n) + oB.h(-n))
        if gap > lb:
            lb = gap
        As.append(a); Bs.append(b)
        W = np.array(As) - np.array(Bs)
        lam = _min_norm(W)
        v = lam @ W
        nv = float(np.linalg.norm(v))
        if nv < ub:
            ub = nv
            best = (lam @ np.array(As), lam @ np.array(Bs))
        if ub - lb <= eps or ub <= eps * 1e-3:
            break
        if len(As) > keep:
            idx = np.argsort(-lam)[:keep // 2]
            idx = sorted(set(idx.tolist()) | {len(As) - 1})
            As = [As[i] for i in idx]; Bs = [Bs[i] for i in idx]
        if nv <= 1e-300:
            break
        n = v / nv      # from B towards A in difference space: n points along a-b; separation of A from B is along -n
        n = -n
    closed = bool(ub - max(0.0, lb) <= eps or ub <= eps)
    # defensive: the upper bound is only valid if its witness pair really is feasible and the bounds are ordered
    if oA.dist(best[0]) > 1e-9 * L or oB.dist(best[1]) > 1e-9 * L or lb > ub + 1e-9 * L:
        closed = False
        ub = float("inf")
    return {"lb": max(0.0, float(lb)), "ub": float(ub), "a": best[0], "b": best[1], "iters": it, "closed": closed}


def minkowski_facets(VA, VB):
    """facet equations (n, off) of conv(VA) - conv(VB); None if degenerate"""
    M = (VA[:, None, :] - VB[None, :, :]).reshape(-1, 3)
    try:
        ch = ConvexHull(M)
    except Exception:  # noqa: BLE001
        return None
    return ch.equations


def polytope_depth(VA, VB):
    """(depth, normal, equations): exact penetration depth (>0 when the origin is
    strictly inside A-B), the outward normal of the closest facet; (None, None,
    eq) when the polytopes do not overlap; (None, None, None) if degenerate."""
    eq = minkowski_facets(np.asarray(VA, float), np.asarray(VB, float))
    if eq is None:
        return None, None, None
    offs = eq[:, 3]
    if np.any(offs > 0):
        return None, None, eq
    i = int(np.argmax(offs))
    return float(-offs[i]), eq[i, :3].copy(), eq


def residual_depth(eq, t):
    """penetration depth that remains after translating B by t (A-B shifts by -t):
    0 if separated / touching."""
    off2 = eq[:, 3] + eq[:, :3] @ t
    if np.any(off2 >= 0):
        return 0.0
    return float(np.min(-off2))


def residual_gap(eq, t):
    """distance between the polytopes after translating B by t (0 if they overlap):
    lower bound = largest positive facet offset (exact when the closest feature is a facet)."""
    off2 = eq[:, 3] + eq[:, :3] @ t
    return float(max(0.0, np.max(off2)))
