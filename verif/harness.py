"""Parent side of a check: shard fan-out, crash containment, aggregation,
known-findings matching, evidence, verdict.

Exit codes: 0 = held on everything explored (known findings are printed and do
not fail), 1 = at least one violation not covered by known_findings.json
(`VIOLATION property=<id> replay=<path>` lines), 3 = inconclusive (deciding
monitor observed too little / watchdog fired; `INCONCLUSIVE` line, never a
VIOLATION line).
"""
import importlib
import json
import os
import shutil
import signal
import subprocess
import sys
import tempfile
import time

from . import env, findings

TIERS = ("quick", "thorough")


def _load(prop):
    return importlib.import_module("verif.checks." + prop.lower())


def _shard_modes(mod, tier):
    modes = getattr(mod, "MODES", None)
    if modes is None:
        modes = {"quick": ["jit"] * env.NCPU, "thorough": ["jit"] * env.NCPU}
    m = modes[tier]
    return list(m)


def run(prop, tier="quick", seed=0, replay=None, keep=False):
    t0 = time.time()
    prop = prop.upper()
    env.ensure_deps()
    sys.path.insert(0, env.DEPS)
    mod = _load(prop)
    if hasattr(mod, "custom_run"):
        return mod.custom_run(tier, seed, replay)
    thash = env.tree_hash()
    need_stub = getattr(mod, "NEED_STUB", False)
    shard_modes = _shard_modes(mod, tier)
    if replay:
        return _replay(mod, prop, replay, thash, need_stub)
    warm_s = {}
    for m in sorted(set(shard_modes)):
        try:
            warm_s[m] = round(env.warm(m, True, thash), 1)
        except subprocess.TimeoutExpired:
            warm_s[m] = "timeout"
    tmp = tempfile.mkdtemp(prefix="verif-%s-" % prop, dir=_scratch())
    nsh = len(shard_modes)
    procs = []
    shard_timeout = getattr(mod, "SHARD_TIMEOUT_S", {"quick": 1500, "thorough": 4 * 3600})[tier]
    for sh, m in enumerate(shard_modes):
        out = os.path.join(tmp, "shard-%02d.json" % sh)
        cmd = [env.PY, "-X", "faulthandler", "-m", "verif.child", prop, tier, str(seed), str(sh), str(nsh), out]
        errf = open(out + ".stderr", "w")
        p = subprocess.Popen(cmd, env=env.child_env(m, need_stub, thash), cwd=env.ROOT,
                             stdout=subprocess.DEVNULL, stderr=errf)
        procs.append((sh, m, p, out, errf))
    results = []
    proc_events = []   # crashes / watchdog
    deadline = time.time() + shard_timeout
    # a case that is stuck inside compiled code cannot be interrupted by the child's own alarm:
    # the parent watches the per-case progress file and stops a shard whose current case is older than stuck_s
    # The deciding quantity is the CPU time the child has consumed since the case started (/proc/<pid>/stat), which is
    # independent of machine load; wall-clock limits (10x longer, and the shard deadline) only ever give 'inconclusive'.
    stuck_s = getattr(mod, "HANG_S", None) or 3 * getattr(mod, "CASE_TIMEOUT_S", 120) + 60
    pending = {sh: (m, p, out, errf) for sh, m, p, out, errf in procs}
    rcs = {}
    cpu_mark = {}   # shard -> (case idx, cpu seconds of the child when the parent first saw that idx)
    cpu_used = {}
    while pending:
        for sh in list(pending):
            m, p, out, errf = pending[sh]
            rc = p.poll()
            if rc is None:
                prog = _progress(out + ".progress")
                if prog is not None:
                    cpu = _proc_cpu_s(p.pid)
                    if sh not in cpu_mark or cpu_mark[sh][0] != prog["idx"]:
                        cpu_mark[sh] = (prog["idx"], cpu)
                    used = (cpu - cpu_mark[sh][1]) if (cpu is not None and cpu_mark[sh][1] is not None) else 0.0
                    cpu_used[sh] = used
                    # idx -1 = warm-up (numba compiles the lazily typed kernels: measured < 200 CPU s): much larger budget
                    if used > (stuck_s if prog["idx"] >= 0 else stuck_s + 900):
                        p.kill(); p.wait()
                        rc = "watchdog-cpu"
                    elif prog["since_s"] > 10 * stuck_s:
                        p.kill(); p.wait()
                        rc = "watchdog"
                if rc is None and time.time() > deadline:
                    p.kill(); p.wait()
                    rc = "watchdog"
            if rc is not None:
                errf.close()
                rcs[sh] = rc
                del pending[sh]
        if pending:
            time.sleep(0.25)
    for sh, m, p, out, errf in procs:
        rc = rcs[sh]
        stderr_tail = _tail(out + ".stderr")
        prog = _progress(out + ".progress")
        if rc == 0 and os.path.exists(out):
            with open(out) as fh:
                results.append(json.load(fh))
        else:
            proc_events.append({"shard": sh, "mode": m, "rc": rc, "progress": prog, "stderr": stderr_tail,
                                "cpu_s": cpu_used.get(sh)})
    verdict = _aggregate(mod, prop, tier, seed, thash, shard_modes, results, proc_events, warm_s, t0)
    if not keep:
        shutil.rmtree(tmp, ignore_errors=True)
    return verdict


def _scratch():
    d = os.path.join(env.CACHE, "scratch")
    os.makedirs(d, exist_ok=True)
    return d


def _tail(path, n=2500):
    try:
        with open(path) as fh:
            s = fh.read()
        return s[-n:]
    except OSError:
        return ""


def _proc_cpu_s(pid):
    """user+system CPU seconds consumed so far by process pid (None if unreadable)"""
    try:
        with open("/proc/%d/stat" % pid) as fh:
            a = fh.read().rsplit(")", 1)[1].split()
        return (int(a[11]) + int(a[12])) / float(os.sysconf("SC_CLK_TCK"))
    except Exception:  # noqa: BLE001
        return None


def _progress(path):
    try:
        with open(path) as fh:
            a = fh.read().split()
        return {"idx": int(a[0]), "since_s": round(time.time() - float(a[1]), 1)}
    except Exception:  # noqa: BLE001
        return None


def _aggregate(mod, prop, tier, seed, thash, shard_modes, results, proc_events, warm_s, t0):
    entries = findings.load()
    cases = sum(r["cases"] for r in results)
    nontrivial = sum(r["nontrivial"] for r in results)
    sigs = set(); ntsigs = set()
    cls = {}; events = {}; worst = {}; inconcl = {}; samples = []
    viols = []; viol_keys = {}
    for r in results:
        sigs.update(r["sigs"]); ntsigs.update(r["ntsigs"])
        for k, v in r["cls"].items():
            cls[k] = cls.get(k, 0) + v
        for k, v in r["events"].items():
            events[k] = events.get(k, 0) + v
        for k, v in r["worst"].items():
            try:
                v = [float(v[0]), v[1]]      # non-finite values travel as their repr
            except (TypeError, ValueError):
                continue
            if k not in worst or v[0] > worst[k][0] or v[0] != v[0]:
                worst[k] = v
        for k, v in r["inconcl"].items():
            inconcl[k] = inconcl.get(k, 0) + v
        samples.extend(r["samples"][:1])
        for v in r["viol"]:
            v["mode"] = r["mode"]
            if isinstance(v.get("err"), str):
                try:
                    v["err"] = float(v["err"])
                except ValueError:
                    v["err"] = None
            viols.append(v)
        for k, st in r["viol_keys"].items():
            cur = viol_keys.setdefault(k, {"n": 0, "max_err": None})
            cur["n"] += st["n"]
            if isinstance(st["max_err"], str):
                try:
                    st["max_err"] = float(st["max_err"])
                except ValueError:
                    st["max_err"] = None
            if st["max_err"] is not None and (cur["max_err"] is None or st["max_err"] > cur["max_err"]):
                cur["max_err"] = st["max_err"]
    # process-level events
    inconclusive_reasons = []
    for ev in proc_events:
        rc = ev["rc"]
        if rc in ("watchdog", "watchdog-cpu"):
            prog = ev["progress"]
            hang_s = getattr(mod, "HANG_S", None)
            if rc == "watchdog-cpu" and hang_s is not None and prog:
                viols.append({"key": {"kind": "hang"}, "err": None, "idx": prog["idx"], "mode": ev["mode"],
                              "msg": "case %d still running after %.0f s of CPU time (%.0f s wall; shard watchdog)" % (
                                  prog["idx"], ev.get("cpu_s") or -1, prog["since_s"])})
            else:
                inconclusive_reasons.append("shard %d stopped by %s watchdog (progress %s)" % (
                    ev["shard"], "CPU-time" if rc == "watchdog-cpu" else "wall-clock", prog))
        elif isinstance(rc, int) and rc < 0:
            prog = ev["progress"] or {"idx": -1}
            try:
                signame = signal.Signals(-rc).name
            except ValueError:
                signame = str(-rc)
            viols.append({"key": {"kind": "crash", "signal": signame}, "err": None, "idx": prog["idx"],
                          "mode": ev["mode"], "msg": "child process died with %s while running case %s" % (signame, prog["idx"]),
                          "trace": ev["stderr"][-1500:]})
        else:
            viols.append({"key": {"kind": "child-failed", "rc": rc}, "err": None,
                          "idx": (ev["progress"] or {"idx": -1})["idx"], "mode": ev["mode"],
                          "msg": "child exited with status %s without a result" % rc, "trace": ev["stderr"][-1500:]})
    # match against known findings
    known_hits = {}
    unknown = []
    for v in viols:
        e = findings.match(entries, prop, v)
        if e is not None:
            h = known_hits.setdefault(e["id"], {"entry": e, "n": 0, "max_err": None})
            h["n"] += 1
            if v.get("err") is not None and (h["max_err"] is None or v["err"] > h["max_err"]):
                h["max_err"] = v["err"]
        else:
            unknown.append(v)
    # totals per key (children cap the number of detailed records): decide via key table as well
    unknown_keys = {}
    known_key_totals = {}
    for ks, st in viol_keys.items():
        key = json.loads(ks)
        e = findings.match(entries, prop, {"key": key, "err": st["max_err"]})
        if e is None:
            unknown_keys[ks] = st
        else:
            kt = known_key_totals.setdefault(e["id"], {"n": 0, "max_err": None})
            kt["n"] += st["n"]
            if st["max_err"] is not None and (kt["max_err"] is None or st["max_err"] > kt["max_err"]):
                kt["max_err"] = st["max_err"]
    # a known finding is calibrated on the unchanged tree; if it suddenly fires far more often than that, the
    # violations hiding behind its key are not the known defect any more
    rate_alarms = []
    if cases >= 1000:
        for kid, h in known_hits.items():
            cap = h["entry"].get("max_per_10k")
            n_k = max(h["n"], known_key_totals.get(kid, h)["n"])
            if cap is not None and n_k >= 10 and n_k * 1e4 / cases > cap:
                rate_alarms.append({"key": {"kind": "known-finding-rate-exceeded", "id": kid}, "err": n_k * 1e4 / cases,
                                    "idx": -1, "mode": "all",
                                    "msg": "known finding %s matched %d of %d cases (%.1f per 10k, calibrated ceiling %.1f per 10k): "
                                           "the mechanism key now covers violations it was not recorded for" % (
                                               kid, n_k, cases, n_k * 1e4 / cases, cap)})
    unknown.extend(rate_alarms)
    # minimum observation counts
    min_events = getattr(mod, "MIN_EVENTS", {})
    if callable(min_events):
        min_events = min_events(tier)
    for k, need in min_events.items():
        have = cases if k == "cases" else events.get(k, 0)
        if have < need:
            inconclusive_reasons.append("monitor '%s' observed %d events, needs >= %d" % (k, have, need))
    frac_inc = (sum(inconcl.values()) / cases) if cases else 1.0
    max_inc = getattr(mod, "MAX_INCONCLUSIVE_FRACTION", 0.25)
    if cases and frac_inc > max_inc:
        inconclusive_reasons.append("%.1f%% of the cases were undecidable for the oracle (limit %.0f%%)" % (100 * frac_inc, 100 * max_inc))
    # write replays + print
    os.makedirs(os.path.join(env.ROOT, "replays"), exist_ok=True)
    lines = []
    printed = 0
    seen_keys = set()
    unknown.sort(key=lambda v: (json.dumps(v.get("key", {}), sort_keys=True), v.get("idx", 0)))
    for v in unknown:
        ks = json.dumps(v.get("key", {}), sort_keys=True)
        if ks in seen_keys and printed >= 12:
            continue
        seen_keys.add(ks)
        if printed >= 40:
            break
        path = os.path.join("replays", "%s-s%d-%s-i%s-%d.json" % (prop, seed, tier, v.get("idx", "x"), printed))
        with open(os.path.join(env.ROOT, path), "w") as fh:
            json.dump({"property": prop, "tier": tier, "seed": seed, "idx": v.get("idx"), "mode": v.get("mode", "jit"),
                       "tree_hash": thash, "violation": v}, fh, indent=1, default=repr)
        lines.append("VIOLATION property=%s replay=%s  # %s" % (prop, path, (v.get("msg") or "")[:200].replace("\n", " ")))
        printed += 1
    for kid, h in sorted(known_hits.items()):
        tot = known_key_totals.get(kid, h)
        print("KNOWN-FINDING: property=%s %s %s (observed %d time(s) in this run%s)" % (
            prop, kid, h["entry"]["what"], max(h["n"], tot["n"]),
            "" if tot.get("max_err") is None else ", max err %.3g" % tot["max_err"]))
    for ln in lines:
        print(ln)
    n_unknown = sum(st["n"] for st in unknown_keys.values()) + sum(
        1 for v in unknown if v.get("key", {}).get("kind") in ("crash", "child-failed", "hang") and "cls" not in v)
    n_unknown = max(n_unknown, len(unknown))
    wall = time.time() - t0
    coverage = {
        "evaluations": cases,
        "distinct_nontrivial": len(ntsigs),
        "distinct_inputs": len(sigs),
        "rule": getattr(mod, "RULE", ""),
        "samples": samples[:6] if samples else [{"note": "no case produced a sample"}],
        "classes": dict(sorted(cls.items())),
        "monitor_events": events,
        "worst_observed": {k: {"value": v[0], "case": v[1]} for k, v in sorted(worst.items())},
        "inconclusive_cases": inconcl,
        "known_findings_observed": {k: {"n": max(h["n"], known_key_totals.get(k, h)["n"]),
                                        "max_err": known_key_totals.get(k, h).get("max_err")} for k, h in known_hits.items()},
        "unknown_violation_keys": {k: v for k, v in list(unknown_keys.items())[:30]},
        "shards": {"n": len(shard_modes), "modes": {m: shard_modes.count(m) for m in sorted(set(shard_modes))}},
        "process_events": [{"shard": e["shard"], "rc": e["rc"], "mode": e["mode"]} for e in proc_events],
        "jit_warmup_s": warm_s,
        "tree_hash": thash,
    }
    if hasattr(mod, "extra_coverage"):
        try:
            coverage.update(mod.extra_coverage(coverage))
        except Exception:  # noqa: BLE001
            pass
    status = "held"
    rc = 0
    if n_unknown:
        status = "violated"; rc = 1
    elif inconclusive_reasons or cases == 0:
        status = "inconclusive"; rc = 3
        if cases == 0 and not inconclusive_reasons:
            inconclusive_reasons.append("no case was executed")
    coverage["verdict"] = status
    coverage["inconclusive_reasons"] = inconclusive_reasons
    ev = {
        "property_id": prop, "tier": tier, "seed": int(seed), "level": getattr(mod, "LEVEL", "exploration"),
        "coverage": coverage,
        "assumptions": list(getattr(mod, "ASSUMPTIONS", [])),
        "wall_s": round(wall, 2),
        "violations": int(n_unknown),
    }
    if coverage["evaluations"] < 1:
        coverage["evaluations"] = 0
    write_evidence(prop, ev)
    if rc == 3:
        print("INCONCLUSIVE property=%s %s" % (prop, "; ".join(inconclusive_reasons)))
    print("%s: %s  cases=%d distinct_nontrivial=%d unknown_violations=%d known=%s inconclusive_cases=%d wall=%.1fs" % (
        prop, status.upper(), cases, len(ntsigs), n_unknown,
        {k: v["n"] for k, v in coverage["known_findings_observed"].items()}, sum(inconcl.values()), wall))
    return rc


def write_evidence(prop, ev):
    edir = os.environ.get("VERIF_EVIDENCE_DIR") or os.path.join(env.ROOT, "evidence")   # redirect only used by tools/mutcheck.sh
    os.makedirs(edir, exist_ok=True)
    path = os.path.join(edir, "%s.json" % prop)
    try:
        import jsonschema
        with open("/root/.vp/EVIDENCE.schema.json") as fh:
            schema = json.load(fh)
        errs = list(jsonschema.Draft202012Validator(schema).iter_errors(json.loads(json.dumps(ev, default=repr))))
        if errs:
            ev.setdefault("coverage", {})["schema_errors"] = [e.message[:200] for e in errs[:5]]
    except Exception:  # noqa: BLE001  (schema file / jsonschema absent: still write)
        pass
    tmp = path + ".tmp"
    with open(tmp, "w") as fh:
        json.dump(ev, fh, indent=1, default=repr)
    os.replace(tmp, path)


def _replay(mod, prop, path, thash, need_stub):
    with open(path) as fh:
        rp = json.load(fh)
    idx = rp["idx"]
    tmp = tempfile.mkdtemp(prefix="verif-replay-", dir=_scratch())
    out = os.path.join(tmp, "r.json")
    mode = rp.get("mode", "jit")
    env.warm(mode, True, thash)
    cmd = [env.PY, "-X", "faulthandler", "-m", "verif.child", prop, rp["tier"], str(rp["seed"]), "0", "1", out, str(idx)]
    p = subprocess.run(cmd, env=env.child_env(mode, need_stub, thash), cwd=env.ROOT, capture_output=True, text=True,
                       timeout=3600)
    if p.returncode != 0 or not os.path.exists(out):
        print("replay: child failed rc=%s\n%s" % (p.returncode, p.stderr[-2000:]))
        print("VIOLATION property=%s replay=%s" % (prop, path))
        shutil.rmtree(tmp, ignore_errors=True)
        return 1
    with open(out) as fh:
        r = json.load(fh)
    shutil.rmtree(tmp, ignore_errors=True)
    entries = findings.load()
    bad = [v for v in r["viol"] if findings.match(entries, prop, v) is None]
    print(json.dumps({"case": r["samples"][:1], "violations": r["viol"], "worst": r["worst"]}, indent=1)[:6000])
    if bad:
        print("VIOLATION property=%s replay=%s" % (prop, path))
        return 1
    print("%s: replayed case %s holds on the current tree (tree hash %s, recorded %s)" % (prop, idx, thash[:12], rp.get("tree_hash", "?")[:12]))
    return 0
