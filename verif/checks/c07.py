"""C07 - EPA returns the minimum translation vector whenever it reports success.

Oracle: for polytope pairs (box / vertex hull / mesh) the exact penetration
depth and all facets of the Minkowski difference (Qhull); for pairs with a
smooth shape an upper bound (sampled and locally optimised directions).
Both windings of the simplex handed over by GJK are tried.
"""
import numpy as np

from .. import monitors, oracles as O, pairs, penscene, refsolve

ID = "C07"
PROPNUM = 7
LEVEL = "exploration"
TOL = 1e-6
MODES = {"quick": ["jit"] * 12 + ["bounds"] * 4, "thorough": ["jit"] * 12 + ["bounds"] * 4}
CASE_TIMEOUT_S = 180
POLY = penscene.POLY
RULE = ("one case = one overlapping pair; 70% polytope pairs (box/hull/mesh, <= 40 vertices each; exact oracle), 30% pairs with "
        "at least one smooth shape (upper-bound oracle); overlap depth 1e-4..0.5 of the smaller shape, deep/nested/lattice/"
        "copy/same placements incl. coincident faces. gjk.gjk provides the simplex (recording proxies tell how many of its rows "
        "are real support differences); epa is run on it and on the same simplex with rows 1 and 2 swapped (other winding). "
        "Judged on success=True: | |mtv| - depth* | <= 1e-6 L (polytopes; <= upper bound + 1e-6 L for smooth), residual overlap "
        "and remaining gap of A vs B+mtv <= 1e-6 L; polytopes must report success. non-trivial = every judged case; distinct = "
        "distinct scene hashes")
ASSUMPTIONS = ["Qhull facets of the vertex differences are exact to ~1e-12 relative",
               "K8: simplices that are not tetrahedra (GJK stopped with < 4 points or coplanar points) are a known finding"]
MIN_EVENTS = {"epa_calls": 2000, "polytope_success": 800, "smooth_calls": 300}
MAX_INCONCLUSIVE_FRACTION = 0.6


def cases(tier):
    return 4000 if tier == "quick" else 100000


def run_case(rng, idx, tier):
    from distance3d import gjk, epa
    smooth_case = (idx % 10) >= 7
    if smooth_case:
        kA = O.KINDS[idx % 8]     # sphere..ellipse
        kB = str(rng.choice(O.KINDS))
        margin_p = 0.15
    else:
        kA = POLY[idx % 3]; kB = POLY[(idx // 3) % 3]; margin_p = 0.0
    sc = penscene.make_overlap(rng, kA, kB, margin_p=margin_p)
    ev = {"epa_calls": 0, "polytope_success": 0, "smooth_calls": 0, "capacity_asserts": 0, "gjk_not_overlapping": 0,
          "not_a_tetrahedron": 0}
    if sc is None:
        return {"cls": "%s|%s|not-overlapping" % (kA, kB), "nontrivial": False, "events": ev, "viol": [],
                "inconcl": ["generated scene does not overlap"]}
    sA, sB, cls, info = sc
    oA, oB, L = pairs.scene(sA, sB, k=1e-6)
    A, B = pairs.build_pair(sA, sB)
    names = (O.name(sA), O.name(sB))
    viol = []; inconcl = []; worst = {}
    rec = {"cls": "%s|%s|%s|%s" % (names[0], names[1], cls, "exact" if info["exact"] is not None else "bound"),
           "nontrivial": True, "sig": repr(pairs.describe(sA, sB, cls, info["truth"])),
           "sample": dict(pairs.describe(sA, sB, cls, info["truth"]), depth_exact=info["exact"], depth_upper_bound=info["ub"])}
    pa = monitors.Counted(A, record=True); pb = pa if B is A else monitors.Counted(B, record=True)
    try:
        d, _, _, simplex = gjk.gjk(pa, pb)
    except Exception as e:  # noqa: BLE001
        rec.update(events=ev, viol=[], inconcl=["gjk raised %s (C01/C19 territory)" % type(e).__name__])
        return rec
    if d != 0.0 or simplex is None:
        ev["gjk_not_overlapping"] += 1
        rec.update(events=ev, viol=[], inconcl=["gjk does not report an overlap (d=%.3g, depth %.3g)" % (d, info["ub"])])
        return rec
    # batch pattern (history clause): results of one query must survive later queries. The simplex object
    # returned by gjk is kept as it is, another gjk query runs, and only then EPA gets the stored simplex.
    snapshot = np.array(simplex, dtype=float)
    is_tetra = monitors.simplex_is_tetrahedron(snapshot, pa, pb)
    try:
        other = pairs.make_pair(rng, None, None)
        gjk.gjk(*pairs.build_pair(other[0], other[1]))
        gjk.gjk(B, A)
    except Exception:  # noqa: BLE001
        pass
    ev["aliasing_checks"] = 1
    same = np.array_equal(np.asarray(simplex, float), snapshot, equal_nan=True)
    if not same:
        rec.update(events=ev, viol=[{"key": {"kind": "result-mutated-by-later-query", "what": "simplex"}, "err": None,
                                     "msg": "the simplex returned by gjk(%s,%s) changed after later gjk queries (shared buffer?)" % names}],
                   worst=worst)
        return rec
    simplex = np.asarray(simplex, dtype=float)      # still the object gjk returned
    if not is_tetra:
        ev["not_a_tetrahedron"] += 1
    polytope = info["exact"] is not None
    key0 = {"pair": "%s|%s" % (O.base_kind(sA), O.base_kind(sB)), "polytope": polytope, "simplex_is_tetrahedron": bool(is_tetra),
            "cls": cls.split("+")[0]}
    for winding, S in (("as-returned", simplex), ("swapped", simplex[[0, 2, 1, 3]].copy())):
        k = dict(key0, winding=winding)
        try:
            mtv, faces, success = epa.epa(np.ascontiguousarray(S), A, B)
        except AssertionError as e:
            ev["capacity_asserts"] += 1
            if polytope:
                viol.append({"key": dict(k, kind="polytope-no-success", how="AssertionError"), "err": None,
                             "msg": "epa(%s,%s) [%s,%s] raised AssertionError for a polytope pair: %s" % (names[0], names[1], cls, winding, str(e)[:100])})
            continue
        except Exception as e:  # noqa: BLE001
            viol.append({"key": dict(k, kind="exception", exc=type(e).__name__), "err": None,
                         "msg": "epa(%s,%s) [%s,%s] raised %s: %s" % (names[0], names[1], cls, winding, type(e).__name__, str(e)[:160])})
            continue
        ev["epa_calls"] += 1
        if not polytope:
            ev["smooth_calls"] += 1
        if not success:
            if polytope:
                viol.append({"key": dict(k, kind="polytope-no-success", how="success=False"), "err": None,
                             "msg": "epa(%s,%s) [%s,%s] returned success=False for a polytope pair" % (names[0], names[1], cls, winding)})
            continue
        mtv = np.asarray(mtv, float)
        if not monitors.finite(mtv):
            viol.append({"key": dict(k, kind="non-finite"), "err": None, "msg": "epa returned mtv=%r with success=True" % (mtv,)})
            continue
        t = float(np.linalg.norm(mtv))
        if polytope:
            ev["polytope_success"] += 1
            e_min = (t - info["exact"]) / L
            resid = refsolve.residual_depth(info["eq"], mtv) / L
            gap = refsolve.residual_gap(info["eq"], mtv) / L
            if is_tetra:
                worst["polytope |mtv|-depth /L"] = max(worst.get("polytope |mtv|-depth /L", 0.0), abs(e_min))
                worst["polytope residual overlap /L"] = max(worst.get("polytope residual overlap /L", 0.0), resid)
                worst["polytope remaining gap /L"] = max(worst.get("polytope remaining gap /L", 0.0), gap)
            if abs(e_min) > TOL:
                viol.append({"key": dict(k, kind="not-minimal" if e_min > 0 else "too-short"), "err": float(abs(e_min)),
                             "msg": "epa(%s,%s) [%s,%s]: |mtv|=%.9g but the penetration depth is %.9g (ratio %.4f)" % (
                                 names[0], names[1], cls, winding, t, info["exact"], t / info["exact"] if info["exact"] else float("inf"))})
            if resid > TOL:
                viol.append({"key": dict(k, kind="residual-overlap"), "err": float(resid),
                             "msg": "epa(%s,%s) [%s,%s]: after translating B by mtv the pair still overlaps by %.3g*L" % (names[0], names[1], cls, winding, resid)})
            if gap > TOL:
                viol.append({"key": dict(k, kind="remaining-gap"), "err": float(gap),
                             "msg": "epa(%s,%s) [%s,%s]: after translating B by mtv a gap of %.3g*L remains" % (names[0], names[1], cls, winding, gap)})
        else:
            over = (t - info["ub"]) / L
            if is_tetra:
                worst["smooth |mtv|-upper bound /L"] = max(worst.get("smooth |mtv|-upper bound /L", -1.0), over)
            if over > TOL:
                viol.append({"key": dict(k, kind="not-minimal"), "err": float(over),
                             "msg": "epa(%s,%s) [%s,%s]: |mtv|=%.9g exceeds an upper bound of the depth %.9g by %.3g*L" % (
                                 names[0], names[1], cls, winding, t, info["ub"], over)})
            if t > 0:
                n = mtv / t
                r_along = (penscene.hM(oA, oB, n) - t) / L          # extent of A-(B+mtv) along n
                if r_along > TOL:
                    viol.append({"key": dict(k, kind="residual-overlap"), "err": float(r_along),
                                 "msg": "epa(%s,%s) [%s,%s]: extent of the difference body along mtv exceeds |mtv| by %.3g*L" % (
                                     names[0], names[1], cls, winding, r_along)})
                # remaining gap: distance between A and B + mtv must be <= tol (sound: uses the lower bound)
                oB2 = O.oracle(O.translated(sB, mtv)) if sB is not sA else O.oracle(O.translated(pairs._copy_spec(sA), mtv))
                rr = refsolve.ref_distance(oA, oB2, L, eps_rel=1e-7, max_iter=120)
                if rr["lb"] / L > TOL:
                    viol.append({"key": dict(k, kind="remaining-gap"), "err": float(rr["lb"] / L),
                                 "msg": "epa(%s,%s) [%s,%s]: after translating B by mtv a gap of at least %.3g*L remains" % (
                                     names[0], names[1], cls, winding, rr["lb"] / L)})
    rec.update(events=ev, viol=viol, worst=worst, inconcl=inconcl)
    return rec
