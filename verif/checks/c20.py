"""C20 - compiled (numba) and interpreted execution give the same results.

One deterministic call list (inputs drawn from the corpora of the other
properties) is executed in three interpreter processes per shard: default JIT,
NUMBA_DISABLE_JIT=1 and JIT + NUMBA_BOUNDSCHECK=1 (numba's bounds sanitizer).
Each process records per call the returned value or the exception type; the
parent compares the three records call by call.
"""
import json
import math
import os
import subprocess
import sys
import tempfile
import time

import numpy as np

ID = "C20"
PROPNUM = 20
LEVEL = "exploration"
NEED_STUB = True
RULE = ("call list: 10 families in turn - (1) the 34 primitive distance functions on the C10 scenes (structured / contact / "
        "jittered), (2) collider support functions and AABBs, (3) gjk_distance_jolt, gjk_intersection_jolt/libccd, "
        "gjk_distance_original, Nesterov primitives distance, (4) mpr_intersection / mpr_penetration, (5) epa, (6) AABB tree "
        "histories incl. empty trees (index sets), (7) intersect_tetrahedron_pair and half-plane intersection on single pairs, "
        "(8) contact_forces on coarse body pairs, (9) utils (transforms, norm_vector incl. zero vector, plane basis, adjoint), "
        "(10) simplex solvers on lattice configurations, (11) solvers with tiny public iteration caps (budget-exhausted exits).  Each call is executed under JIT, NUMBA_DISABLE_JIT=1 and "
        "JIT+NUMBA_BOUNDSCHECK=1; compared: exception types, discrete results (booleans, index sets) when the scene is away "
        "from decision boundaries, floats to 1e-9 relative (closed forms) or the accuracy of C01/C07-C09 (iterative solvers). "
        "non-trivial = call outside the 'free random' class; distinct = distinct call hashes")
ASSUMPTIONS = ["'away from decision boundaries' for booleans: scenes with a constructed gap or depth >= 1e-3 L",
               "results of meshes are compared after a fresh construction in every process (cached start vertex)"]
FAMILIES = ["distance", "support", "distance", "gjk", "distance", "mpr", "distance", "epa", "distance", "aabbtree", "distance", "tetra",
            "distance", "forces", "distance", "utils", "caps", "simplex"]
SHARDS = {"jit": 4, "bounds": 4, "nojit": 8}


def cases(tier):
    return 9000 if tier == "quick" else 180000


# ---------------------------------------------------------------------------------------------
# call list

def _flat(x, nums, disc):
    if x is None:
        disc.append("None"); return
    if isinstance(x, (bool, np.bool_)):
        disc.append(bool(x)); return
    if isinstance(x, (int, np.integer)):
        disc.append(int(x)); return
    if isinstance(x, (float, np.floating)):
        nums.append(float(x)); return
    if isinstance(x, np.ndarray):
        if x.dtype == bool or np.issubdtype(x.dtype, np.integer):
            disc.append(x.tolist())
        else:
            nums.extend(np.asarray(x, float).ravel().tolist())
        return
    if isinstance(x, (tuple, list)):
        for y in x:
            _flat(y, nums, disc)
        return
    if isinstance(x, dict):
        for k in sorted(x):
            _flat(x[k], nums, disc)
        return
    disc.append(repr(type(x).__name__))


def _tied_minima_outside(p1, p2, L):
    """own model of the situation in which line_segment_to_circle's end-point clamp (C11 finding K3) turns a tie into
    different results: the distance from the infinite line to the circle has two local minima of (nearly) the same
    value that the clamp to the segment sends to different points (only one of them on the segment, or one beyond each end)"""
    a = np.asarray(p1.args[0], float); b = np.asarray(p1.args[1], float)
    c = np.asarray(p2.args[0], float); r = float(p2.args[1]); n = np.asarray(p2.args[2], float)
    ln = float(np.linalg.norm(b - a))
    if ln == 0.0:
        return False
    d = (b - a) / ln
    t = np.linspace(-4 * r - ln, 2 * ln + 4 * r, 20001)
    P = a + t[:, None] * d - c
    z = P @ n
    rho = np.linalg.norm(P - z[:, None] * n, axis=1)
    f = np.hypot(rho - r, z)
    loc = np.where((f[1:-1] <= f[:-2]) & (f[1:-1] <= f[2:]))[0] + 1
    if len(loc) < 2:
        return False
    best = f[loc].min()
    tied = [i for i in loc if f[i] <= best + 5e-3 * L]
    inside = [0.0 <= t[i] <= ln for i in tied]
    clamped = sorted(float(np.clip(t[i], 0.0, ln)) for i in tied)
    # at least one tied candidate outside the segment, and the candidates end up at different points of the segment
    # (one inside / one outside, or beyond the two different ends)
    return bool(len(tied) >= 2 and not all(inside) and clamped[-1] - clamped[0] > 1e-9 * max(ln, 1.0))


def make_call(rng, idx, tier):
    """returns dict(fn, thunk, L, tol ('rel' 1e-9 closed form | absolute multiple of L), discrete ('always'|'never'), cls)"""
    from .. import gen, oracles as O, pairs, prims, hydro
    from . import c10
    fam = FAMILIES[idx % len(FAMILIES)]
    if fam == "distance":
        name, fname, kwargs, sc, p1, p2 = c10.make_case(rng, idx // len(FAMILIES))
        L = prims.pair_L(p1, p2)
        iterative = name in ("line_to_circle", "line_segment_to_circle", "disk_to_disk", "point_to_ellipsoid", "point_to_ellipsoid[surface]")
        unique = not sc.structured and not sc.contact and not prims.in_band(p1, p2)

        def th():
            r = prims.call(fname, p1, p2, kwargs)
            pts = [np.asarray(x, float) for x in r[1:3]]
            q1 = np.asarray(p1.args[0], float) if p1.kind == "point" else pts[0]
            q2 = pts[0] if p1.kind == "point" else pts[1]
            out = {"d": float(r[0]), "separation": float(np.linalg.norm(q1 - q2))}
            # the closest points themselves are only compared where the optimum is unique (generic placement): in
            # structured / touching scenes several point pairs attain the minimum and rounding decides between them
            if unique:
                out["points"] = pts
            return out
        tol = 1e-7 if iterative else 1e-9
        tags = None
        if name in ("line_to_circle", "line_segment_to_circle") and not unique:
            # 8-step bisection: in structured / touching scenes a sign test can sit exactly on a root or two candidate
            # roots tie, so the modes may settle on different iterates; the accuracy stated for this solver (C11) applies
            tol = 5e-3
            if name == "line_segment_to_circle":
                tags = {"tied_line_minima_clamp_differently": _tied_minima_outside(p1, p2, L)}
        if prims.has_sliver(p1, p2):
            # mechanism of K18: the triangle functions' region tests cancel for sliver triangles, the last bits decide
            tags = dict(tags or {}, sliver_triangle=True)
        return {"fn": "distance." + name, "thunk": th, "L": L, "tags": tags,
                "tol": tol, "discrete": "always", "cls": "structured" if sc.structured else ("contact" if sc.contact else "generic"),
                "desc": {"p1": p1.describe(), "p2": p2.describe()}, "tolmap": {"points": 1e-7}}
    if fam == "support":
        spec = gen.rand_spec(rng, margin_p=0.1)
        d = gen.rand_dirs(rng, 1, [])[0]
        o = O.oracle(spec)

        via_update = bool(rng.random() < 0.4)
        useed = int(rng.integers(1 << 30))

        def th():
            # 40% of the colliders reach their pose through update_pose (stack slice or fresh array)
            col = gen.build_via_update(spec, np.random.default_rng(useed)) if via_update else gen.build(spec)
            return (col.support_function(d), col.aabb(), col.center(), col.first_vertex())
        return {"fn": "collider.support/aabb[%s]" % O.name(spec), "thunk": th, "L": O.scene_L([o]), "tol": 1e-9, "discrete": "always",
                "cls": O.name(spec), "desc": {"spec": O.describe(spec), "d": d.tolist()}}
    if fam in ("gjk", "mpr", "epa"):
        kA = O.KINDS[(idx // 18) % 10]; kB = O.KINDS[(idx // 180) % 10]
        cp = {"gap": .3, "deep": .25, "overlap": .1, "lattice": .1, "feature": .1, "nested": .05, "same": .03, "copy": .03, "touch": .04}
        sA, sB, cls, truth = pairs.make_pair(rng, kA, kB, margin_p=0.1, class_p=cp)
        oA, oB, L = pairs.scene(sA, sB)
        clear = (truth["dist"] is not None and truth["dist"] >= 1e-3 * L) or \
                (truth.get("common") is not None and truth.get("depth") is not None and truth["depth"] >= 1e-3 * L)
        desc = pairs.describe(sA, sB, cls, truth)
        PR = ("sphere", "capsule", "box", "ellipsoid", "cylinder")
        if fam == "gjk":
            def th():
                from distance3d import gjk
                A, B = pairs.build_pair(sA, sB)
                r = gjk.gjk_distance_jolt(A, B)
                out = {"d": r[0], "i_jolt": gjk.gjk_intersection_jolt(*pairs.build_pair(sA, sB)),
                       "i_libccd": gjk.gjk_intersection_libccd(*pairs.build_pair(sA, sB)),
                       "orig": gjk.gjk_distance_original(*pairs.build_pair(sA, sB))[0]}
                if sA["kind"] in PR and sB["kind"] in PR:
                    out["prim"] = gjk.gjk_nesterov_accelerated_primitives_distance(*pairs.build_pair(sA, sB))
                return out
            return {"fn": "gjk[%s,%s]" % (O.name(sA), O.name(sB)), "thunk": th, "L": L, "tol": 2e-3, "discrete": "always" if clear else "never",
                    "cls": cls, "desc": desc, "tolmap": {"d": 2e-5}}
        if fam == "mpr":
            def th():
                from distance3d import mpr
                r = mpr.mpr_penetration(*pairs.build_pair(sA, sB))
                return {"hit": mpr.mpr_intersection(*pairs.build_pair(sA, sB)), "hit2": r[0], "depth": r[1] if r[1] is not None else -1.0}
            generic = cls.split("+")[0] in ("gap", "deep", "overlap", "nested")
            return {"fn": "mpr[%s,%s]" % (O.name(sA), O.name(sB)), "thunk": th, "L": L, "tol": 4e-3 if generic else 10.0,
                    "discrete": "always" if clear else "never", "cls": cls, "desc": desc}

        def th():
            from distance3d import gjk, epa
            from .. import monitors
            A, B = pairs.build_pair(sA, sB)
            pa = monitors.Counted(A, record=True); pb = pa if B is A else monitors.Counted(B, record=True)
            r = gjk.gjk_distance_jolt(pa, pb)
            if r[0] != 0.0 or r[3] is None:
                return {"overlap": False}
            S = np.array(r[3], dtype=float)
            # only genuine tetrahedra: the unused rows of GJK's np.empty simplex are uninitialised memory (K8) and
            # differ between processes whatever the execution mode
            if not monitors.simplex_is_tetrahedron(S, pa, pb):
                return {"overlap": True, "tetra": False}
            try:
                mtv, _, ok = epa.epa(S, A, B)
            except AssertionError:
                return {"overlap": True, "tetra": True, "capacity": True}
            return {"overlap": True, "tetra": True, "ok": bool(ok), "len": float(np.linalg.norm(mtv)) if ok else -1.0}
        return {"fn": "epa[%s,%s]" % (O.name(sA), O.name(sB)), "thunk": th, "L": L, "tol": 2e-5, "discrete": "always" if clear else "never",
                "cls": cls, "desc": desc}
    if fam == "caps":
        # the documented iteration caps are public arguments: every solver is run with a tiny budget so that its
        # "budget used up" exit is taken; compared across modes: exception types and the structure (types, shapes)
        # of the result -- truncated iterates themselves are not compared, they sit on branch decisions
        PR = ("sphere", "capsule", "box", "ellipsoid", "cylinder")
        kA = PR[(idx // 18) % 5]; kB = PR[(idx // 90) % 5]
        cp = {"gap": .35, "deep": .25, "overlap": .2, "touch": .1, "nested": .1}
        sA, sB, cls, truth = pairs.make_pair(rng, kA, kB, margin_p=0.0, class_p=cp)
        oA, oB, L = pairs.scene(sA, sB)
        M = int(rng.choice([0, 1, 2, 3, 5]))
        which = int(rng.integers(6))

        def shape_of(x):
            if isinstance(x, (tuple, list)):
                return [shape_of(y) for y in x]
            if isinstance(x, np.ndarray):
                return ["array", list(x.shape), "f" if x.dtype.kind == "f" else x.dtype.kind]
            if isinstance(x, (bool, np.bool_)):
                return "bool"
            if isinstance(x, (int, np.integer)):
                return "int"
            if isinstance(x, (float, np.floating)):
                return "float"
            return type(x).__name__

        def th():
            from distance3d import gjk, mpr, epa
            A, B = pairs.build_pair(sA, sB)
            if which == 0:
                r = gjk.gjk_nesterov_accelerated_primitives(A, B, max_interations=M)
                return repr(("nesterov_primitives", shape_of(r[:2]), int(r[3]) <= M))
            if which == 1:
                r = gjk.gjk_nesterov_accelerated(A, B, max_interations=M)
                return repr(("nesterov", shape_of(r[:2]), int(r[3]) <= M))
            if which == 2:
                return repr(("libccd", shape_of(gjk.gjk_intersection_libccd(A, B, max_iterations=M))))
            if which == 3:
                return repr(("mpr_intersection", shape_of(mpr.mpr_intersection(A, B, max_iterations=M))))
            if which == 4:
                r = mpr.mpr_penetration(A, B, max_iterations=M)
                return repr(("mpr_penetration", shape_of(r[0])))
            from .. import monitors
            pa = monitors.Counted(A, record=True); pb = pa if B is A else monitors.Counted(B, record=True)
            r = gjk.gjk_distance_jolt(pa, pb)
            if r[0] != 0.0 or r[3] is None:
                return repr(("epa", "disjoint"))
            S = np.array(r[3], dtype=float)
            if not monitors.simplex_is_tetrahedron(S, pa, pb):
                return repr(("epa", "no-tetrahedron"))
            r = epa.epa(S, A, B, max_iter=max(M, 1))
            return repr(("epa", shape_of(r[0]), shape_of(r[2])))
        clear = (truth["dist"] is not None and truth["dist"] >= 1e-3 * L) or \
                (truth.get("common") is not None and truth.get("depth") is not None and truth["depth"] >= 1e-3 * L)
        return {"fn": "caps[%d,M=%d,%s,%s]" % (which, M, O.name(sA), O.name(sB)), "thunk": th, "L": L, "tol": 1e-9,
                "discrete": "always" if clear else "never", "cls": "caps|" + cls, "desc": pairs.describe(sA, sB, cls, truth)}
    if fam == "aabbtree":
        from . import c05
        famb = str(rng.choice(c05.FAMILIES))
        plan = [(str(rng.choice(["none", "sort", "single"])), int(rng.choice([0, 1, 2, 3, 5, 8, 20]))) for _ in range(int(rng.integers(0, 4)))]
        batches = [c05._boxes(rng, n, famb) for _, n in plan]
        qs = [c05._boxes(rng, 1, str(rng.choice(c05.FAMILIES)))[0] for _ in range(4)]
        b2 = c05._boxes(rng, int(rng.choice([0, 1, 3, 8])), famb)

        def th():
            from distance3d.aabb_tree import AabbTree
            t = AabbTree(); k = 0
            for (mode, n), bx in zip(plan, batches):
                data = list(range(k, k + n)); k += n
                if mode == "single":
                    for b, dd in zip(bx, data):
                        t.insert_aabb(b, dd)
                else:
                    t.insert_aabbs(bx, data, pre_insertion_methode=mode)
            out = []
            for q in qs:
                hit, ids = t.overlaps_aabb(np.ascontiguousarray(q))
                out.append((bool(hit), sorted(t.external_data_list[int(i)] for i in ids)))
            t2 = AabbTree()
            if len(b2):
                t2.insert_aabbs(b2, list(range(1000, 1000 + len(b2))))
            hit, _, _, prs = t.overlaps_aabb_tree(t2)
            out.append((bool(hit), sorted((t.external_data_list[int(i)], t2.external_data_list[int(j)]) for i, j in prs)))
            hit, _, _, prs = t2.overlaps_aabb_tree(t)
            out.append((bool(hit), len(prs)))
            return repr(out)
        return {"fn": "AabbTree.history", "thunk": th, "L": 1.0, "tol": 1e-9, "discrete": "always", "cls": "batches=%d|%s" % (len(plan), famb),
                "desc": {"plan": plan, "family": famb}}
    if fam == "tetra":
        from . import c15
        dy = bool(rng.random() < 0.5)
        t1 = c15._dyadic_tet(rng) if dy else c15._rand_tet(rng, 0.3)
        t2 = np.ascontiguousarray((c15._dyadic_tet(rng) if dy else c15._rand_tet(rng, 0.3)) + (rng.integers(-2, 3, size=3) / 4.0 if dy else rng.normal(size=3) * 0.15))
        e1 = np.ascontiguousarray(rng.uniform(0.1, 1, size=4)); e2 = np.ascontiguousarray(rng.uniform(0.1, 1, size=4))
        hp = np.ascontiguousarray(np.c_[rng.normal(size=(6, 2)), rng.normal(size=(6, 2))])

        def th():
            from distance3d import hydroelastic_contact as hc
            X = hc.barycentric_transforms(np.array([t1, t2]))
            hit, info = hc.intersect_tetrahedron_pair(t1, e1, np.ascontiguousarray(X[0]), t2, e2, np.ascontiguousarray(X[1]))
            pts = hc.intersect_halfplanes(hp)
            return {"hit": bool(hit), "plane": info[0], "npoly": -1 if info[1] is None else len(info[1]),
                    "area": _poly_area(info[1], info[0]) if hit else 0.0, "hp_n": len(pts), "hp_sum": float(np.sum(pts)) if len(pts) else 0.0}
        return {"fn": "intersect_tetrahedron_pair+intersect_halfplanes", "thunk": th, "L": 1.0, "tol": 1e-9, "discrete": "never" if dy else "always",
                "cls": "dyadic" if dy else "random", "desc": {"t1": t1.tolist(), "t2": t2.tolist()}}
    if fam == "forces":
        sc = hydro.scene(rng, placement=str(rng.choice(["general", "aligned", "disjoint"], p=[.6, .2, .2])))
        (k1, k2), (p1, p2), (T1, T2) = sc["kinds"], sc["params"], sc["poses"]
        for p in (p1, p2):
            if "order" in p:
                p["order"] = min(p["order"], 1)
            if "resolution_hint" in p:
                p["resolution_hint"] = p["radius"] * 1.5

        def th():
            from distance3d import hydroelastic_contact as hc
            hit, w12, w21 = hc.contact_forces(hydro.make_body(k1, p1, T1), hydro.make_body(k2, p2, T2))
            return {"hit": bool(hit), "w12": w12, "w21": w21}
        # the wrench is a sum over hundreds of tetrahedron-pair decisions with absolute thresholds (each one a decision
        # boundary): compared at the 5% discretisation noise level of C16, the intersection flag exactly
        return {"fn": "contact_forces[%s,%s]" % (k1, k2), "thunk": th, "L": 1.0, "tol": 5e-2, "discrete": "always" if sc["placement"] != "aligned" else "never",
                "cls": sc["placement"], "desc": hydro.describe(sc), "scale_by_value": True}
    if fam == "utils":
        T = O.pose(gen.rand_rot(rng), gen.center(rng))
        P = np.ascontiguousarray(rng.normal(size=(5, 3)))
        v = np.ascontiguousarray(rng.normal(size=3)) if rng.random() < 0.8 else np.zeros(3)
        n = gen.rand_dir(rng) if rng.random() < 0.6 else np.eye(3)[int(rng.integers(3))] * float(rng.choice([-1.0, 1.0]))
        n = np.ascontiguousarray(n)

        def th():
            from distance3d import utils as U
            return (U.transform_points(T, P), U.transform_directions(T, P), U.invert_transform(T), U.norm_vector(v),
                    U.plane_basis_from_normal(n), U.adjoint_from_transform(T), U.transform_point(T, P[0]),
                    U.inverse_transform_point(T, P[1]), U.scalar_triple_product(P[0], P[1], P[2]))
        return {"fn": "utils", "thunk": th, "L": max(1.0, float(np.abs(T).max())), "tol": 1e-9, "discrete": "always", "cls": "utils",
                "desc": {"T": T.tolist(), "v": v.tolist(), "n": n.tolist()}}
    # simplex solvers on lattice configurations
    from . import c18
    k = int(rng.integers(1, 5))
    Pn = rng.integers(-2, 3, size=(k, 3)).astype(float)

    def th():
        from distance3d.gjk import _gjk_jolt as J, _gjk_original as G
        Y = np.zeros((4, 3)); Y[:k] = Pn
        ok, v, v2, bits = J.get_closest_point_to_origin(Y, k, np.inf)
        S = G.SimplexInfo(); S.set_first_point(0, 0, Pn[0].copy())
        for i in range(1, k):
            S.add_new_point(i, i, Pn[i].copy())
        sol, _ = G.distance_subalgorithm_with_backup_procedure(S, G.Solution(), True)
        return {"ok": bool(ok), "v2": float(v2), "bits": int(bits), "d2": float(sol.distance_squared), "m": len(S)}
    return {"fn": "simplex-solvers", "thunk": th, "L": 3.0, "tol": 1e-9, "discrete": "always", "cls": "k=%d" % k, "desc": {"P": Pn.tolist()}}


def _poly_area(poly, plane):
    if poly is None or len(poly) < 3:
        return 0.0
    poly = np.asarray(poly, float); n = np.asarray(plane, float)[:3]
    return float(0.5 * abs(sum(np.cross(poly[i] - poly[0], poly[i + 1] - poly[0]) @ n for i in range(1, len(poly) - 1))))


# ---------------------------------------------------------------------------------------------
# worker

def worker(argv):
    import faulthandler
    import warnings
    faulthandler.enable()
    warnings.simplefilter("ignore")
    tier, seed, shard, nshards, out = argv[0], int(argv[1]), int(argv[2]), int(argv[3]), argv[4]
    explicit = [int(a) for a in argv[5:]]
    from ..child import case_rng, jsonable
    n = cases(tier)
    recs = {}
    prog = open(out + ".progress", "w")
    for idx in (explicit or range(shard, n, nshards)):
        prog.seek(0); prog.write("%d %.3f      \n" % (idx, time.time())); prog.flush()
        rng = case_rng(seed, PROPNUM, idx)
        try:
            call = make_call(rng, idx, tier)
        except Exception as e:  # noqa: BLE001   (generator touches the library only through constructors)
            recs[idx] = {"fn": "generator", "kind": "gen-exc", "exc": type(e).__name__, "msg": str(e)[:200]}
            continue
        r = {"fn": call["fn"], "cls": call["cls"], "L": call["L"], "tol": call["tol"], "discrete": call["discrete"],
             "tolmap": call.get("tolmap"), "scale_by_value": call.get("scale_by_value", False), "tags": call.get("tags")}
        try:
            val = call["thunk"]()
            nums = []; disc = []
            if isinstance(val, dict):
                r["names"] = sorted(val)
                numd = {}
                for k in sorted(val):
                    a = []; _flat(val[k], a, disc)
                    numd[k] = a
                r["numd"] = numd
            else:
                _flat(val, nums, disc)
            r.update(kind="value", nums=nums, disc=repr(disc))
        except Exception as e:  # noqa: BLE001
            r.update(kind="exc", exc=type(e).__name__, msg=str(e)[:200])
        if idx % 97 == 0 or explicit:
            r["desc"] = jsonable(call.get("desc"))
        recs[idx] = r
    with open(out + ".tmp", "w") as fh:
        json.dump(jsonable(recs), fh)
    os.replace(out + ".tmp", out)


# ---------------------------------------------------------------------------------------------
# parent

def custom_run(tier, seed, replay):
    from .. import env, findings, harness
    t0 = time.time()
    thash = env.tree_hash()
    tmp = tempfile.mkdtemp(prefix="verif-C20-", dir=harness._scratch())
    explicit = []
    if replay:
        with open(replay) as fh:
            rp = json.load(fh)
        tier, seed, explicit = rp["tier"], rp["seed"], [str(rp["idx"])]
    for m in ("jit", "bounds"):
        try:
            env.warm(m, True, thash)
        except subprocess.TimeoutExpired:
            pass
    procs = []
    for mode, ns in SHARDS.items():
        if explicit:
            ns = 1
        for sh in range(ns):
            out = os.path.join(tmp, "%s-%02d.json" % (mode, sh))
            cmd = [env.PY, "-X", "faulthandler", "-m", "verif.checks.c20", "worker", tier, str(seed), str(sh), str(ns), out] + explicit
            errf = open(out + ".stderr", "w")
            p = subprocess.Popen(cmd, env=env.child_env(mode, True, thash), cwd=env.ROOT, stdout=subprocess.DEVNULL, stderr=errf)
            procs.append((mode, sh, p, out, errf))
    limit = {"quick": 1500, "thorough": 4 * 3600}[tier]
    deadline = time.time() + limit
    recs = {"jit": {}, "bounds": {}, "nojit": {}}
    proc_events = []
    for mode, sh, p, out, errf in procs:
        try:
            rc = p.wait(timeout=max(1.0, deadline - time.time()))
        except subprocess.TimeoutExpired:
            p.kill(); p.wait(); rc = "watchdog"
        errf.close()
        if rc == 0 and os.path.exists(out):
            with open(out) as fh:
                recs[mode].update({int(k): v for k, v in json.load(fh).items()})
        else:
            proc_events.append({"mode": mode, "shard": sh, "rc": rc, "progress": harness._progress(out + ".progress"),
                                "stderr": harness._tail(out + ".stderr")})
    entries = findings.load()
    viols = []
    stats = {"calls_compared_jit_vs_interpreted": 0, "calls_compared_jit_vs_boundscheck": 0, "exceptions_in_both": 0,
             "floats_compared": 0, "discrete_compared": 0, "discrete_skipped_near_boundary": 0}
    classes = {}; fams = {}
    worst = {}
    samples = []
    sigs = set(); ntsigs = set()
    for idx in sorted(recs["jit"]):
        a = recs["jit"][idx]
        fams[a["fn"].split("[")[0]] = fams.get(a["fn"].split("[")[0], 0) + 1
        classes[a.get("cls", "?")] = classes.get(a.get("cls", "?"), 0) + 1
        sigs.add(idx)
        if a.get("cls") not in ("free", "generic"):
            ntsigs.add(idx)
        if len(samples) < 5 and "desc" in a:
            samples.append({"idx": idx, "fn": a["fn"], "inputs": a["desc"], "jit": {k: a.get(k) for k in ("kind", "exc", "nums", "numd", "disc")}})
        for other, label, stat in (("nojit", "interpreted", "calls_compared_jit_vs_interpreted"), ("bounds", "boundscheck", "calls_compared_jit_vs_boundscheck")):
            b = recs[other].get(idx)
            if b is None:
                continue
            stats[stat] += 1
            v = _compare(a, b, label, stats, worst)
            if v:
                v.update(idx=idx, mode=other)
                viols.append(v)
    for ev in proc_events:
        rc = ev["rc"]
        if rc == "watchdog":
            continue
        kind = "crash" if isinstance(rc, int) and rc < 0 else "child-failed"
        viols.append({"key": {"kind": kind, "mode": ev["mode"]}, "err": None, "idx": (ev["progress"] or {"idx": -1})["idx"], "mode": ev["mode"],
                      "msg": "%s worker died (rc=%s) while running call %s: %s" % (ev["mode"], rc, (ev["progress"] or {}).get("idx"), ev["stderr"][-300:])})
    known = {}; unknown = []
    for v in viols:
        e = findings.match(entries, ID, v)
        if e is None:
            unknown.append(v)
        else:
            known.setdefault(e["id"], {"entry": e, "n": 0})["n"] += 1
    for kid, h in sorted(known.items()):
        print("KNOWN-FINDING: property=%s %s %s (observed %d time(s) in this run)" % (ID, kid, h["entry"]["what"], h["n"]))
    os.makedirs(os.path.join(env.ROOT, "replays"), exist_ok=True)
    for i, v in enumerate(unknown[:40]):
        path = os.path.join("replays", "C20-s%d-%s-i%s-%d.json" % (seed, tier, v["idx"], i))
        with open(os.path.join(env.ROOT, path), "w") as fh:
            json.dump({"property": ID, "tier": tier, "seed": seed, "idx": v["idx"], "mode": v["mode"], "tree_hash": thash, "violation": v}, fh, indent=1, default=repr)
        print("VIOLATION property=%s replay=%s  # %s" % (ID, path, v["msg"][:220].replace("\n", " ")))
    n = len(recs["jit"])
    inconclusive = []
    if any(e["rc"] == "watchdog" for e in proc_events):
        inconclusive.append("a worker was stopped by the wall-clock watchdog")
    need = int(0.9 * cases(tier)) if not replay else 1
    if stats["calls_compared_jit_vs_interpreted"] < need or stats["calls_compared_jit_vs_boundscheck"] < need:
        inconclusive.append("only %d / %d of %d calls could be compared" % (stats["calls_compared_jit_vs_interpreted"], stats["calls_compared_jit_vs_boundscheck"], cases(tier)))
    status = "violated" if unknown else ("inconclusive" if inconclusive else "held")
    ev = {"property_id": ID, "tier": tier, "seed": int(seed), "level": LEVEL,
          "coverage": {"evaluations": n, "distinct_nontrivial": len(ntsigs), "distinct_inputs": len(sigs), "rule": RULE,
                       "samples": samples or [{"note": "no sample"}], "classes": classes, "calls_per_family": fams,
                       "monitor_events": stats, "worst_observed": worst, "processes": {m: SHARDS[m] for m in SHARDS},
                       "known_findings_observed": {k: v["n"] for k, v in known.items()},
                       "process_events": [{"mode": e["mode"], "rc": e["rc"]} for e in proc_events], "tree_hash": thash,
                       "verdict": status, "inconclusive_reasons": inconclusive},
          "assumptions": ASSUMPTIONS, "wall_s": round(time.time() - t0, 2), "violations": len(unknown)}
    if not replay:
        harness.write_evidence(ID, ev)
    import shutil
    shutil.rmtree(tmp, ignore_errors=True)
    if status == "inconclusive":
        print("INCONCLUSIVE property=%s %s" % (ID, "; ".join(inconclusive)))
    print("%s: %s  calls=%d compared(jit/interpreted)=%d compared(jit/boundscheck)=%d unknown_violations=%d known=%s wall=%.1fs" % (
        ID, status.upper(), n, stats["calls_compared_jit_vs_interpreted"], stats["calls_compared_jit_vs_boundscheck"], len(unknown),
        {k: v["n"] for k, v in known.items()}, time.time() - t0))
    return 1 if unknown else (3 if inconclusive else 0)


def _compare(a, b, label, stats, worst):
    fn = a["fn"]
    key = {"fn": fn.split("[")[0], "against": label}
    if key["fn"] in ("mpr", "gjk", "epa"):
        key["cls"] = str(a.get("cls", "?")).split("+")[0]
    if a["kind"] == "gen-exc" or b["kind"] == "gen-exc":
        if a["kind"] != b["kind"] or a.get("exc") != b.get("exc"):
            return {"key": dict(key, kind="generator-differs"), "err": None, "msg": "%s: input construction %r vs %r" % (fn, a, b)}
        return None
    if a["kind"] == "exc" or b["kind"] == "exc":
        if a["kind"] == b["kind"] and a["exc"] == b["exc"]:
            stats["exceptions_in_both"] += 1
            return None
        ja = a["exc"] if a["kind"] == "exc" else "a value"
        jb = b["exc"] if b["kind"] == "exc" else "a value"
        k = dict(key, kind="exception-type-differs", jit=ja, other=jb)
        if label == "boundscheck" and jb == "IndexError" and a["kind"] == "value":
            k["kind"] = "out-of-bounds-read-in-compiled-code"
        return {"key": k, "err": None, "msg": "%s: JIT gives %s, %s run gives %s (%s)" % (fn, ja, label, jb, (b.get("msg") or a.get("msg") or "")[:120])}
    L = float(a["L"])
    # discrete part
    if a["discrete"] == "always":
        stats["discrete_compared"] += 1
        if a["disc"] != b["disc"]:
            return {"key": dict(key, kind="discrete-result-differs"), "err": None,
                    "msg": "%s: discrete results differ: JIT %s vs %s %s" % (fn, a["disc"][:160], label, b["disc"][:160])}
    else:
        stats["discrete_skipped_near_boundary"] += 1
    # floats
    pairs_ = []
    if "numd" in a and "numd" in b:
        if a.get("names") != b.get("names") and a["discrete"] == "always":
            return {"key": dict(key, kind="result-structure-differs"), "err": None, "msg": "%s: fields %s vs %s" % (fn, a.get("names"), b.get("names"))}
        for k in a["numd"]:
            if k in b["numd"]:
                tol = (a.get("tolmap") or {}).get(k, a["tol"])
                pairs_.append((k, a["numd"][k], b["numd"][k], tol))
    else:
        pairs_.append(("", a["nums"], b["nums"], a["tol"]))
    for nm, x, y, tol in pairs_:
        if len(x) != len(y):
            if a["discrete"] == "always":
                return {"key": dict(key, kind="result-structure-differs"), "err": None, "msg": "%s: %d vs %d numbers in field %r" % (fn, len(x), len(y), nm)}
            continue
        fin = [abs(_tofloat(t)) for t in list(x) + list(y) if _tofloat(t) == _tofloat(t) and not math.isinf(_tofloat(t))]
        vmax = max(fin) if fin else 0.0
        for u, v in zip(x, y):
            u = _tofloat(u); v = _tofloat(v)
            stats["floats_compared"] += 1
            if (u != u) != (v != v) or (math.isinf(u) != math.isinf(v)):
                return {"key": dict(key, kind="nan-or-inf-in-one-mode", field=nm), "err": None, "msg": "%s: %r (JIT) vs %r (%s) in field %r" % (fn, u, v, label, nm)}
            if u != u or math.isinf(u):
                continue
            scale = max(L, abs(u), abs(v)) if not a.get("scale_by_value") else max(vmax, 1e-300)
            e = abs(u - v) / scale
            wk = "%s %s" % (fn.split("[")[0], label)
            worst[wk] = max(worst.get(wk, 0.0), e / tol)
            if e > tol:
                return {"key": dict(key, kind="value-differs", field=nm, **(a.get("tags") or {})), "err": float(e),
                        "msg": "%s: field %r: %.17g (JIT) vs %.17g (%s): relative difference %.3g > %.1g" % (fn, nm, u, v, label, e, tol)}
    return None


def _tofloat(u):
    if isinstance(u, str):
        try:
            return float(u)
        except ValueError:
            return float("nan")
    return float(u)


if __name__ == "__main__":
    if sys.argv[1] == "worker":
        worker(sys.argv[2:])
