"""C08 - MPR penetration result separates the pair and its contact point is shared.

When mpr_penetration reports an intersection with depth t and direction u:
translating the second collider by t*u leaves a residual overlap <= 2e-3*L,
t >= true depth - 2e-3*L, the contact position lies in both colliders, t >= 0,
|u| = 1 (or u = 0 iff t = 0).

Oracles: polytope pairs: exact facets of the Minkowski difference; pairs with
smooth shapes: residual overlap is only *refuted* by a certificate (a ball of
radius rho contained in both A and B + t*u proves a residual depth >= 2*rho),
depth lower bound from the constructed common ball.
"""
import numpy as np

from .. import monitors, oracles as O, pairs, penscene, refsolve

ID = "C08"
PROPNUM = 8
LEVEL = "exploration"
TOL = 2e-3
MODES = {"quick": ["jit"] * 12 + ["bounds"] * 4, "thorough": ["jit"] * 12 + ["bounds"] * 4}
CASE_TIMEOUT_S = 180
POLY = penscene.POLY
RULE = ("one case = one overlapping pair: 60% polytope pairs (exact oracle), 40% with smooth shapes/Margin (certificate oracle); "
        "overlap depth 1e-4..0.5 of the smaller shape plus deep, nested (concentric: the ORIGIN_ON_V1 / V0V1 special cases), "
        "lattice (coincident faces), copy and same placements. mpr_penetration is called once; judged when it reports an "
        "intersection: depth >= 0 finite, |direction| in {1, 0 iff depth==0}, residual overlap of A vs B+t*u <= 2e-3 L, "
        "t >= depth* - 2e-3 L, contact position within 2e-3 L of both colliders; a clear overlap (certified depth > 2e-3 L) "
        "must be reported as intersection. Every 10th case: a pair that touches exactly on the line through both centres "
        "(dyadic sizes, signed-permutation poses; both argument orders): if an intersection is reported the depth is <= 2e-3 L "
        "and the contact position lies in both colliders. L = max(1, feature sizes, centre distance) as the property defines "
        "it (the distance from the origin only enters a 1e-9 rounding allowance). non-trivial = every judged case; distinct = distinct scene hashes")
ASSUMPTIONS = ["Qhull facets exact to ~1e-12 relative", "for smooth shapes a residual overlap is reported only with a common-ball certificate"]
MIN_EVENTS = {"mpr_calls": 2500, "polytope_judged": 1200, "smooth_judged": 500, "touch_judged": 100}
MAX_INCONCLUSIVE_FRACTION = 0.6


def cases(tier):
    return 4000 if tier == "quick" else 100000


def _dy(rng, lo=2, hi=17):
    return float(rng.integers(lo, hi)) / 8.0


def _touch_centreline(rng):
    """two shapes that touch in exactly one point (or along a face) on the line through their centres, with exactly
    representable numbers: signed-permutation poses, sizes in eighths, centres on a dyadic lattice. This is the
    placement in which MPR's portal discovery finds the origin on its first support point (ORIGIN_ON_V1)."""
    from .. import gen
    k = int(rng.integers(3)); sg = float(rng.choice([-1.0, 1.0]))
    u = np.zeros(3); u[k] = sg

    def shape(c):
        kind = str(rng.choice(["sphere", "capsule", "ellipsoid", "box", "cylinder"], p=[.35, .2, .2, .15, .1]))
        T = O.pose(gen.rand_rot(rng, "perm"), c)
        if kind == "sphere":
            return {"kind": kind, "c": np.array(c, float), "r": _dy(rng)}
        if kind == "capsule":
            return {"kind": kind, "T": T, "r": _dy(rng), "h": _dy(rng)}
        if kind == "ellipsoid":
            return {"kind": kind, "T": T, "radii": np.array([_dy(rng), _dy(rng), _dy(rng)])}
        if kind == "box":
            return {"kind": kind, "T": T, "size": np.array([_dy(rng), _dy(rng), _dy(rng)]) * 2}
        return {"kind": kind, "T": T, "r": _dy(rng), "l": _dy(rng) * 2}
    cA = rng.integers(-16, 17, size=3).astype(float) / 4.0
    if rng.random() < 0.3:
        cA = cA + rng.integers(-3, 4, size=3).astype(float) * 64.0
    sA = shape(cA)
    sB = shape(np.zeros(3))
    oA = O.oracle(sA); oB = O.oracle(sB)
    hA = oA.h(u) - float(oA.center() @ u)
    hB = oB.h(-u) + float(oB.center() @ u)
    sB = O.translated(sB, cA + (hA + hB) * u)
    touch = cA + hA * u
    return sA, sB, touch


def _run_touch(rng, idx):
    from distance3d import mpr
    sA, sB, touch = _touch_centreline(rng)
    oA, oB, Lfull = pairs.scene(sA, sB)
    L = max(1.0, oA.scale(), oB.scale(), float(np.linalg.norm(oA.center() - oB.center())))
    names = (O.name(sA), O.name(sB))
    ev = {"mpr_calls": 0, "polytope_judged": 0, "smooth_judged": 0, "no_intersection_reported": 0, "touch_judged": 0}
    viol = []; worst = {}
    key0 = {"pair": "%s|%s" % names, "polytope": False, "cls": "touch-centreline"}
    rec = {"cls": "%s|%s|touch-centreline" % names, "nontrivial": True,
           "sig": repr(pairs.describe(sA, sB, "touch-centreline", {"dist": 0.0, "depth": 0.0})),
           "sample": dict(pairs.describe(sA, sB, "touch-centreline", {"dist": 0.0, "depth": 0.0}), touching_point=touch.tolist())}

    def bad(kind, err, msg):
        viol.append({"key": dict(key0, kind=kind), "err": None if err is None else float(err),
                     "msg": "mpr_penetration(%s,%s) [touch-centreline]: %s" % (names[0], names[1], msg)})
    # the oracles must agree that the constructed point is shared (self-check of the construction)
    if max(oA.dist(touch), oB.dist(touch)) > 1e-12 * Lfull:
        rec.update(events=ev, viol=viol, inconcl=["touching point not on both oracles"])
        return rec
    for order, (X, Y) in (("AB", pairs.build_pair(sA, sB)), ("BA", pairs.build_pair(sB, sA))):
        try:
            inter, depth, pdir, pos = mpr.mpr_penetration(X, Y)
        except Exception as e:  # noqa: BLE001
            bad("exception", None, "raised %s: %s" % (type(e).__name__, str(e)[:200]))
            viol[-1]["key"]["exc"] = type(e).__name__
            continue
        ev["mpr_calls"] += 1
        if not inter:
            ev["no_intersection_reported"] += 1      # touching is the decision boundary: both answers are allowed
            continue
        if not monitors.finite(depth, pdir, pos) or np.shape(pdir) != (3,) or np.shape(pos) != (3,):
            key0["touching_depth"] = bool(abs(float(depth)) <= 1e-9 * L) if monitors.finite(depth) else False
            bad("non-finite", None, "returned depth=%r direction=%r position=%r" % (depth, pdir, pos))
            key0.pop("touching_depth", None)
            continue
        ev["touch_judged"] += 1
        depth = float(depth); pos = np.asarray(pos, float); nd = float(np.linalg.norm(pdir))
        if depth < 0 or depth > TOL * L:
            bad("depth-of-touching-pair", abs(depth) / L, "depth %.6g for a pair that only touches (%s)" % (depth, order))
        if not (abs(nd - 1.0) <= 1e-9 or (nd == 0.0 and depth <= 1e-9 * L)):
            bad("direction-not-unit", abs(nd - 1.0), "|direction| = %.12g with depth %.6g" % (nd, depth))
        pe = max(0.0, max(oA.dist(pos), oB.dist(pos)) - 1e-9 * Lfull) / L
        worst["contact position outside /L (touching)"] = max(worst.get("contact position outside /L (touching)", 0.0), pe)
        if pe > TOL:
            bad("position-not-shared", pe, "contact position %s is %.3g*L outside %s (%s; the shapes touch at %s)" % (
                pos.tolist(), pe, "A" if oA.dist(pos) >= oB.dist(pos) else "B", order, touch.tolist()))
    rec.update(events=ev, viol=viol, worst=worst)
    return rec


def run_case(rng, idx, tier):
    from distance3d import mpr
    if idx % 10 == 9:
        return _run_touch(rng, idx)
    smooth_case = (idx % 10) >= 6
    if smooth_case:
        kA = O.KINDS[idx % 8]; kB = str(rng.choice(O.KINDS)); margin_p = 0.15
    else:
        kA = POLY[idx % 3]; kB = POLY[(idx // 3) % 3]; margin_p = 0.0
    sc = penscene.make_overlap(rng, kA, kB, margin_p=margin_p)
    ev = {"mpr_calls": 0, "polytope_judged": 0, "smooth_judged": 0, "no_intersection_reported": 0}
    if sc is None:
        return {"cls": "%s|%s|not-overlapping" % (kA, kB), "nontrivial": False, "events": ev, "viol": [],
                "inconcl": ["generated scene does not overlap"]}
    sA, sB, cls, info = sc
    oA, oB, Lfull = pairs.scene(sA, sB)
    # L exactly as the property defines it (feature sizes and the distance between the centres, floor 1): the distance
    # of the scene from the world origin does NOT enlarge the tolerance here; it only enters a rounding allowance of
    # 1e-9 * coordinate magnitude, so an error that grows with the distance from the origin is still seen
    L = max(1.0, oA.scale(), oB.scale(), float(np.linalg.norm(oA.center() - oB.center())))
    slack = 1e-9 * Lfull
    A, B = pairs.build_pair(sA, sB)
    names = (O.name(sA), O.name(sB))
    viol = []; worst = {}
    polytope = info["exact"] is not None
    key0 = {"pair": "%s|%s" % (O.base_kind(sA), O.base_kind(sB)), "polytope": polytope, "cls": cls.split("+")[0]}
    rec = {"cls": "%s|%s|%s|%s" % (names[0], names[1], cls, "exact" if polytope else "certificate"), "nontrivial": True,
           "sig": repr(pairs.describe(sA, sB, cls, info["truth"])),
           "sample": dict(pairs.describe(sA, sB, cls, info["truth"]), depth_exact=info["exact"], depth_upper_bound=info["ub"])}

    def bad(kind, err, msg):
        viol.append({"key": dict(key0, kind=kind), "err": None if err is None else float(err),
                     "msg": "mpr_penetration(%s,%s) [%s]: %s" % (names[0], names[1], cls, msg)})

    try:
        inter, depth, pdir, pos = mpr.mpr_penetration(A, B)
    except Exception as e:  # noqa: BLE001
        bad("exception", None, "raised %s: %s" % (type(e).__name__, str(e)[:200]))
        viol[-1]["key"]["exc"] = type(e).__name__
        rec.update(events=ev, viol=viol, worst=worst)
        return rec
    ev["mpr_calls"] += 1
    depth_lb = info["exact"] if polytope else info["lb"]
    if not inter:
        ev["no_intersection_reported"] += 1
        if depth_lb is not None and depth_lb > TOL * L:
            bad("missed-clear-overlap", depth_lb / L, "no intersection reported although the penetration depth is >= %.3g*L" % (depth_lb / L))
        rec.update(events=ev, viol=viol, worst=worst)
        return rec
    if not monitors.finite(depth, pdir, pos) or np.shape(pdir) != (3,) or np.shape(pos) != (3,):
        bad("non-finite", None, "returned depth=%r direction=%r position=%r" % (depth, pdir, pos))
        rec.update(events=ev, viol=viol, worst=worst)
        return rec
    depth = float(depth); pdir = np.asarray(pdir, float); pos = np.asarray(pos, float)
    if depth < 0:
        bad("negative-depth", -depth / L, "depth %r" % depth)
    nd = float(np.linalg.norm(pdir))
    # zero direction is the documented answer for touching contact: depth 0 up to rounding (the code tests
    # |depth| < machine epsilon); accepted here for depth <= 1e-9*L
    if not (abs(nd - 1.0) <= 1e-9 or (nd == 0.0 and depth <= 1e-9 * L)):
        bad("direction-not-unit", abs(nd - 1.0), "|direction| = %.12g with depth %.6g" % (nd, depth))
    t = depth * pdir
    # contact position in both colliders
    pe = max(0.0, max(oA.dist(pos), oB.dist(pos)) - slack) / L
    worst["contact position outside /L"] = pe
    if pe > TOL:
        mn = min(min(O.extents(sA)), min(O.extents(sB)))
        key0["depth_exceeds_smallest_extent"] = bool(depth >= mn)
        bad("position-not-shared", pe, "contact position is %.3g*L outside %s" % (pe, "A" if oA.dist(pos) >= oB.dist(pos) else "B"))
    key0.pop("depth_exceeds_smallest_extent", None)
    if polytope:
        ev["polytope_judged"] += 1
        resid = max(0.0, refsolve.residual_depth(info["eq"], t) - slack) / L
        short = (info["exact"] - depth - slack) / L
        worst["polytope residual overlap /L"] = resid
        worst["polytope depth*-t /L"] = short
        if resid > TOL:
            bad("residual-overlap", resid, "after translating B by t*u the pair still overlaps by %.3g*L (t=%.6g, depth*=%.6g)" % (resid, depth, info["exact"]))
        if short > TOL:
            bad("depth-too-small", short, "t=%.6g is below the penetration depth %.6g by %.3g*L" % (depth, info["exact"], short))
    else:
        ev["smooth_judged"] += 1
        short = (info["lb"] - depth - slack) / L
        worst["smooth certified depth - t /L"] = short
        if short > TOL:
            bad("depth-too-small", short, "t=%.6g is below a certified lower bound of the depth %.6g" % (depth, info["lb"]))
        # residual overlap: refute only with a certificate
        sB2 = O.translated(pairs._copy_spec(sA) if sB is sA else sB, t)
        oB2 = O.oracle(sB2)
        rr = refsolve.ref_distance(oA, oB2, L, eps_rel=1e-6, max_iter=100)
        if rr["lb"] <= 0:
            p0 = 0.5 * (rr["a"] + rr["b"])
            lbres = max(0.0, penscene.common_ball_lower_bound(oA, oB2, p0) - slack) / L
            worst["smooth certified residual overlap /L"] = lbres
            if lbres > TOL:
                bad("residual-overlap", lbres, "after translating B by t*u a ball of radius %.3g*L still fits into both shapes" % (lbres / 2))
    rec.update(events=ev, viol=viol, worst=worst)
    return rec
