"""C01 - GJK distance query (gjk.gjk / gjk_distance / gjk_distance_jolt) returns
feasible, consistent and optimal closest points.

Oracle: membership and consistency from closed forms; optimality from the exact
constructed gap (gap/touch classes) or from the two-sided certificate of the
independent reference solver (verif/refsolve.py). Overlap => d == 0 is only
demanded when a common point is certified at depth >= 1e-5*L in both shapes;
d > 0 is demanded when the certified gap exceeds 1e-5*L.
"""
import math

import numpy as np

from .. import monitors, oracles as O, pairs, refsolve

ID = "C01"
PROPNUM = 1
LEVEL = "exploration"
TOL = 1e-5
MODES = {"quick": ["jit"] * 12 + ["bounds"] * 4, "thorough": ["jit"] * 12 + ["bounds"] * 4}
CASE_TIMEOUT_S = 120
RULE = ("one case = one ordered collider pair; the ordered type pair is (idx mod 10, idx/10 mod 10) so all 100 pairs occur "
        "equally, each side wrapped in Margin with p=0.15; sizes common-scale or independent over [1e-2,1e2]; placement class "
        "from {gap(g=1e-7..10 L, exact truth), touch (exact truth 0), overlap, deep, same object, equal copy, nested, lattice, "
        "parallel axes, free, far, coplanar}. The query is issued through gjk.gjk / gjk_distance / gjk_distance_jolt in turn, "
        "with support-call counting proxies. Judged: membership of a and b, | |a-b| - d |, d against exact truth or against the "
        "reference interval [lb,ub], d==0 with a==b on certified overlap, d>0 on certified gap, clipping only beyond "
        "sqrt(max_distance_squared). non-trivial = class is not 'free'/'far' (those terminate in 2-3 iterations); distinct = "
        "distinct (specs, class) hashes")
ASSUMPTIONS = ["oracle closed forms; reference interval [lb,ub] is sound by construction (feasible pair / separating slab)",
               "L = max(1, feature sizes, centre distances, centre norms)"]
MIN_EVENTS = {"queries": 8000, "truth_exact": 3000, "truth_interval": 3000}
MAX_INCONCLUSIVE_FRACTION = 0.05
SQRT_MAXD = math.sqrt(100000.0)


def cases(tier):
    return 30000 if tier == "quick" else 1500000


def _call(idx):
    from distance3d import gjk
    return [gjk.gjk, gjk.gjk_distance, gjk.gjk_distance_jolt][idx % 3], ["gjk.gjk", "gjk.gjk_distance", "gjk.gjk_distance_jolt"][idx % 3]


def run_case(rng, idx, tier):
    kA = O.KINDS[idx % 10]; kB = O.KINDS[(idx // 10) % 10]
    sA, sB, cls, truth = pairs.make_pair(rng, kA, kB)
    oA, oB, L = pairs.scene(sA, sB, k=1e-5)
    A, B = pairs.build_pair(sA, sB, rng, 0.2)     # 20% of the colliders reach their pose through update_pose()
    tol = TOL * L
    viol = []; inconcl = []; worst = {}
    ev = {"queries": 0, "truth_exact": 0, "truth_interval": 0, "support_calls": 0, "clipped": 0, "overlap_certified": 0}
    names = (O.name(sA), O.name(sB))
    key0 = {"pair": "%s|%s" % (O.base_kind(sA), O.base_kind(sB)), "cls": cls.split("+")[0],
            "max_aspect": O.aspect_bucket(max(O.aspect(sA), O.aspect(sB))),
            "flat_shape": bool(O.base_kind(sA) in ("disk", "ellipse") or O.base_kind(sB) in ("disk", "ellipse"))}
    fn, fname = _call(idx)
    pa = monitors.Counted(A, record=True); pb = pa if B is A else monitors.Counted(B, record=True)
    rec = {"cls": "%s|%s|%s" % (names[0], names[1], cls), "nontrivial": cls not in ("free", "far"),
           "sig": repr(pairs.describe(sA, sB, cls, truth)), "sample": pairs.describe(sA, sB, cls, truth)}
    try:
        res = fn(pa, pb)
    except Exception as e:  # noqa: BLE001
        viol.append({"key": dict(key0, kind="exception", exc=type(e).__name__), "err": None,
                     "msg": "%s(%s,%s) [%s] raised %s: %s" % (fname, names[0], names[1], cls, type(e).__name__, str(e)[:200])})
        rec.update(events=ev, viol=viol, worst=worst)
        return rec
    ev["queries"] += 1
    # history clause: what a query returned must not be changed by later queries (no shared result buffers)
    if idx % 4 == 0 and res[1] is not None:
        snap = [np.array(x, dtype=float) for x in res[1:4]]
        try:
            fn(pb, pa)
            fn(*pairs.build_pair(*pairs.make_pair(rng)[:2]))
        except Exception:  # noqa: BLE001
            pass
        ev["aliasing_checks"] = 1
        for nm, x, y in zip(("closest_point1", "closest_point2", "simplex"), res[1:4], snap):
            if not np.array_equal(np.asarray(x, float), y, equal_nan=True):
                viol.append({"key": {"kind": "result-mutated-by-later-query", "what": nm}, "err": None,
                             "msg": "%s: the returned %s changed after later queries (shared buffer?)" % (fname, nm)})
    ev["support_calls"] += pa.n + (0 if pb is pa else pb.n)
    worst["support_calls"] = pa.n + (0 if pb is pa else pb.n)
    d, a, b = res[0], res[1], res[2]
    # ---- truth
    if truth["dist"] is not None:
        lb = ub = truth["dist"]; ev["truth_exact"] += 1
        slack = 4e-16 * max(L, 1e3)     # rounding of the constructed translation
    elif truth["common"] is not None and truth["depth"] is not None and truth["depth"] > tol:
        lb = ub = 0.0; ev["truth_exact"] += 1; slack = 0.0
    else:
        r = refsolve.ref_distance(oA, oB, L, eps_rel=1e-7)
        lb, ub = r["lb"], r["ub"]; slack = 0.0
        if not r["closed"] and ub - lb > 0.1 * tol:
            inconcl.append("reference interval did not close")
        ev["truth_interval"] += 1
    certified_overlap = truth["common"] is not None and truth["depth"] is not None and truth["depth"] >= tol
    if certified_overlap:
        ev["overlap_certified"] += 1
    # ---- clipped?
    from distance3d.utils import MAX_FLOAT
    if a is None or b is None or d == MAX_FLOAT:
        ev["clipped"] += 1
        if not (lb > SQRT_MAXD - tol):
            if not inconcl:
                viol.append({"key": dict(key0, kind="clipped-too-early"), "err": None,
                             "msg": "%s returned the clip value although the distance is in [%.6g, %.6g] < sqrt(max_distance_squared)" % (fname, lb, ub)})
        rec.update(events=ev, viol=viol, worst=worst, inconcl=inconcl)
        return rec
    if not (monitors.finite(d, a, b) and np.shape(a) == (3,) and np.shape(b) == (3,)):
        viol.append({"key": dict(key0, kind="non-finite"), "err": None, "msg": "%s returned d=%r a=%r b=%r" % (fname, d, a, b)})
        rec.update(events=ev, viol=viol, worst=worst, inconcl=inconcl)
        return rec
    a = np.asarray(a, float); b = np.asarray(b, float); d = float(d)

    deg = simplex_degeneracy(res[3], pa, pb)

    def bad(kind, err, msg):
        viol.append({"key": dict(key0, kind=kind, grazing=bool(d <= 1e-6 * L), degenerate_simplex=deg[0] < 1e-6),
                     "err": float(err), "degeneracy": deg[0], "simplex_points": deg[1],
                     "msg": "%s(%s,%s) [%s]: %s" % (fname, names[0], names[1], cls, msg)})

    ma = oA.dist(a) / L; mb = oB.dist(b) / L
    worst["membership/L"] = max(ma, mb)
    if ma > TOL:
        bad("a-not-in-A", ma, "closest point a is %.3g*L outside A" % ma)
    if mb > TOL:
        bad("b-not-in-B", mb, "closest point b is %.3g*L outside B" % mb)
    cons = abs(float(np.linalg.norm(a - b)) - d) / L
    worst["consistency/L"] = cons
    if cons > TOL:
        bad("inconsistent", cons, "| |a-b| - d | = %.3g*L (d=%.9g, |a-b|=%.9g)" % (cons, d, np.linalg.norm(a - b)))
    if d < 0:
        bad("negative", -d / L, "negative distance %r" % d)
    if not inconcl:
        over = (d - ub - slack) / L; under = (lb - slack - d) / L
        worst["d_above_truth/L"] = over; worst["d_below_truth/L"] = under
        if over > TOL:
            bad("not-minimal", over, "d=%.9g exceeds the certified upper bound %.9g by %.3g*L" % (d, ub, over))
        if under > TOL:
            bad("below-lower-bound", under, "d=%.9g is below the certified lower bound %.9g by %.3g*L" % (d, lb, under))
        if lb - slack > tol and not d > 0:
            bad("zero-on-gap", lb / L, "d=0 although the shapes are separated by at least %.3g" % lb)
    if certified_overlap:
        if d != 0.0:
            key0["shallow_overlap"] = bool(truth["depth"] < 100 * tol)
            bad("nonzero-on-overlap", d / L, "d=%.3g although a common point lies %.3g deep in both shapes" % (d, truth["depth"]))
            key0.pop("shallow_overlap", None)
    if d == 0.0:
        sep = float(np.linalg.norm(a - b)) / L
        if sep > TOL:
            bad("zero-distance-distinct-points", sep, "d == 0 but |a-b| = %.3g*L" % sep)
    rec.update(events=ev, viol=viol, worst=worst, inconcl=inconcl)
    return rec


def simplex_degeneracy(Y, pa, pb):
    """(ratio, n): how close to affinely dependent the valid rows of the returned Minkowski simplex are.
    Valid rows are those equal to a recorded support difference p_i - q_i (the array comes from np.empty, the
    unused rows are garbage). ratio = smallest / largest singular value of the edge matrix (1.0 for a single
    point; 0 for exactly dependent points)."""
    try:
        Y = np.asarray(Y, float)
        if pb is pa:
            W = np.array(pa.pts[0::2]) - np.array(pa.pts[1::2])
        else:
            W = np.array(pa.pts) - np.array(pb.pts)
        rows = [y for y in Y if np.any(np.all(W == y, axis=1))]
        # drop duplicates of the same support difference
        uniq = []
        for y in rows:
            if not any(np.array_equal(y, z) for z in uniq):
                uniq.append(y)
        k = len(uniq)
        if k <= 1:
            return 1.0, k
        E = np.array(uniq[1:]) - uniq[0]
        sv = np.linalg.svd(E, compute_uv=False)
        if sv[0] == 0:
            return 0.0, k
        return float(sv[min(k - 1, 3) - 1] / sv[0]), k
    except Exception:  # noqa: BLE001
        return 1.0, -1
