"""C06 - BVH broad phase plus narrow phase finds exactly the brute-force collisions.

Executable model after every step of a history of joint / pose changes
followed by update_collider_poses():
  * every collider's pose equals the transform manager's current transform;
  * aabb_overlapping_colliders / _with_self / _with_other_bvh equal the
    all-pairs closed-interval test on the colliders' CURRENT aabb()
    (set of ordered pairs, multiplicity 1, payload identity);
  * self_collision.detect: must(f) <= marked <= may(f), computed from the
    all-pairs gjk_intersection matrix and the (possibly asymmetric) whitelists;
    detect_any == exists f: must(f).
"""
import numpy as np

from .. import gen, oracles as O

ID = "C06"
PROPNUM = 6
LEVEL = "exploration"
TOL = 1e-9
MODES = {"quick": ["jit"] * 12 + ["bounds"] * 4, "thorough": ["jit"] * 12 + ["bounds"] * 4}
CASE_TIMEOUT_S = 300
TIMEOUT_IS_VIOLATION = False
RULE = ("one case = one generated robot: URDF text with 2-8 links as a chain or a branching tree (branching gives asymmetric "
        "generated whitelists), revolute/prismatic/fixed joints with limits, 1-2 collision geometries (sphere/box/cylinder) per "
        "link, plus 0-3 extra colliders (capsule/cone/mesh) attached by add_transform + add_collider with random (possibly "
        "asymmetric) whitelists; compact link spacing so that self collisions are frequent. History of 3-10 (quick) / up to 20 "
        "steps: random joint values inside the limits and/or moved extra frames, then update_collider_poses(); after every step "
        "the pose model, the three broad-phase queries (random and member query colliders, a second BVH, an empty BVH) and "
        "self_collision.detect / detect_any are compared with brute force. non-trivial = robots with >= 3 colliders and >= 2 "
        "steps; distinct = distinct (urdf, joint history) hashes")
ASSUMPTIONS = ["the narrow phase used for the brute-force matrix is the library's gjk_intersection (its correctness is C02's subject); "
               "pairs whose answer differs between the two argument orders are treated as undecided (excluded from must, included in may)",
               "AABB overlap is the closed-interval test on the colliders' own current aabb()"]
MIN_EVENTS = {"geometry_checks": 3000, "steps": 800, "pose_checks": 4000, "broad_phase_queries": 2500, "self_collision_checks": 800,
              "robots_with_asymmetric_whitelists": 20, "frames_in_contact": 200}


def cases(tier):
    return 400 if tier == "quick" else 6000


def _fmt(v):
    return " ".join("%.6g" % x for x in v)


def make_urdf(rng):
    n = int(rng.integers(2, 9))
    tree = bool(rng.random() < 0.6)
    sc = float(rng.choice([0.1, 0.3, 1.0]))
    links = []; joints = []
    for i in range(n):
        cols = []
        for _ in range(int(rng.integers(1, 3))):
            g = str(rng.choice(["sphere", "box", "cylinder"]))
            if g == "sphere":
                geo = '<sphere radius="%.6g"/>' % (sc * rng.uniform(0.2, 0.6))
            elif g == "box":
                geo = '<box size="%s"/>' % _fmt(sc * rng.uniform(0.2, 1.0, size=3))
            else:
                geo = '<cylinder radius="%.6g" length="%.6g"/>' % (sc * rng.uniform(0.15, 0.5), sc * rng.uniform(0.3, 1.2))
            cols.append('<collision><origin xyz="%s" rpy="%s"/><geometry>%s</geometry></collision>' % (
                _fmt(sc * rng.normal(size=3) * 0.2), _fmt(rng.uniform(-np.pi, np.pi, size=3) * (rng.random() < 0.7)), geo))
        links.append('<link name="l%d">%s</link>' % (i, "".join(cols)))
        if i > 0:
            parent = int(rng.integers(0, i)) if tree else i - 1
            typ = str(rng.choice(["revolute", "prismatic", "fixed"], p=[.6, .25, .15]))
            lo = -float(rng.uniform(0.2, 3.0)); hi = float(rng.uniform(0.2, 3.0))
            if typ == "prismatic":
                lo *= sc * 0.3; hi *= sc * 0.3
            ax = gen.rand_dir(rng) if rng.random() < 0.5 else np.eye(3)[int(rng.integers(3))]
            lim = '<axis xyz="%s"/><limit lower="%.6g" upper="%.6g"/>' % (_fmt(ax), lo, hi) if typ != "fixed" else ""
            joints.append(('j%d' % i, typ, lo, hi,
                           '<joint name="j%d" type="%s"><parent link="l%d"/><child link="l%d"/><origin xyz="%s" rpy="%s"/>%s</joint>' % (
                               i, typ, parent, i, _fmt(sc * rng.normal(size=3) * 0.6), _fmt(rng.uniform(-np.pi, np.pi, size=3)), lim)))
    # links and joints may be declared in any order in a URDF: the order decides the order of the colliders in the BVH
    root = links[0]
    rest = links[1:]
    if rng.random() < 0.6:
        rest = [rest[i] for i in rng.permutation(len(rest))]
    jl = [j[4] for j in joints]
    if rng.random() < 0.6:
        jl = [jl[i] for i in rng.permutation(len(jl))]
    order = [root] + rest if rng.random() < 0.7 else rest + [root]
    urdf = '<?xml version="1.0"?><robot name="robot">%s%s</robot>' % ("".join(order), "".join(jl))
    return urdf, [(j[0], j[1], j[2], j[3]) for j in joints], n, sc


def _overlap(a, b):
    return bool(np.all(a[:, 0] <= b[:, 1]) and np.all(a[:, 1] >= b[:, 0]))


def _fresh_like(col, T):
    """a new collider with the parameters of col at pose T (None for types this helper does not know)"""
    from distance3d import colliders as C
    try:
        if isinstance(col, C.Sphere):
            return C.Sphere(T[:3, 3].copy(), float(col.radius))
        if isinstance(col, C.Box):
            return C.Box(T, np.array(col.size, dtype=float))
        if isinstance(col, C.Cylinder):
            return C.Cylinder(T, float(col.radius), float(col.length))
        if isinstance(col, C.Capsule):
            return C.Capsule(T, float(col.radius), float(col.height))
        if isinstance(col, C.Cone):
            return C.Cone(T, float(col.radius), float(col.height))
        if isinstance(col, C.MeshGraph):
            return C.MeshGraph(T, np.array(col.vertices, dtype=float), np.array(col.triangles))
    except Exception:  # noqa: BLE001
        return None
    return None


def run_case(rng, idx, tier):
    from pytransform3d.urdf import UrdfTransformManager
    from distance3d.broad_phase import BoundingVolumeHierarchy
    from distance3d import gjk, self_collision
    viol = []; worst = {}
    ev = {"steps": 0, "pose_checks": 0, "broad_phase_queries": 0, "self_collision_checks": 0,
          "robots_with_asymmetric_whitelists": 0, "frames_in_contact": 0, "undecided_pairs": 0}
    urdf, joints, nlinks, sc = make_urdf(rng)
    rec = {"cls": "links=%d|%s" % (nlinks, "tree" if "tree" else "chain"), "nontrivial": True, "sig": repr(urdf)[:4000],
           "sample": {"urdf": urdf[:1500], "joints": joints}}

    def fail(kind, msg, **kw):
        viol.append({"key": dict(kind=kind, **kw), "err": None, "msg": msg})

    try:
        tm = UrdfTransformManager()
        tm.load_urdf(urdf)
        # documented optional argument: pose of the base frame in the world ("origin"); re-posed during the history
        base_moves = bool(rng.random() < 0.5)
        if base_moves:
            bvh = BoundingVolumeHierarchy(tm, "robot", np.ascontiguousarray(O.pose(gen.rand_rot(rng), rng.normal(size=3) * sc)))
        else:
            bvh = BoundingVolumeHierarchy(tm, "robot")
        bvh.fill_tree_with_colliders(tm, make_artists=False, fill_self_collision_whitelists=True)
    except Exception as e:  # noqa: BLE001
        fail("setup-exception", "building the BVH from the URDF raised %s: %s" % (type(e).__name__, str(e)[:200]), exc=type(e).__name__)
        rec.update(events=ev, viol=viol, worst=worst)
        return rec
    # extra colliders
    extras = []
    pose_buffers = {}
    for k in range(int(rng.integers(0, 4))):
        kind = str(rng.choice(["capsule", "cone", "mesh"]))
        # a third of the extra frames hang directly on "origin" and are moved the simulation-loop way: one pose array
        # that is overwritten in place and handed to add_transform again
        parent = "origin" if rng.random() < 0.35 else "l%d" % int(rng.integers(0, nlinks))
        T = np.ascontiguousarray(O.pose(gen.rand_rot(rng), rng.normal(size=3) * sc * 0.5))
        frame = "extra%d" % k
        tm.add_transform(frame, parent, T)
        pose_buffers[frame] = T
        spec = gen.rand_spec(rng, kind, scale=sc * 0.5, rot=np.eye(3), c=np.zeros(3), smin=1e-2, smax=1e2)
        A2B = tm.get_transform(frame, "origin")
        spec = dict(spec, T=np.array(A2B, dtype=float))
        col = gen.build(spec)
        bvh.add_collider(frame, col)
        others = list(bvh.colliders_.keys())
        wl = [frame] + [f for f in others if rng.random() < 0.25 and f != frame]
        bvh.self_collision_whitelists_[frame] = wl
        extras.append((frame, parent, spec))
    frames = list(bvh.colliders_.keys())
    # user-edited whitelists: one-directional additions in either storage order
    if rng.random() < 0.5 and len(frames) >= 2:
        for _ in range(int(rng.integers(1, 4))):
            g, f = (frames[i] for i in rng.choice(len(frames), size=2, replace=False))
            wl = list(bvh.self_collision_whitelists_.get(g, []))
            if f not in wl:
                wl.append(f)
            bvh.self_collision_whitelists_[g] = wl
    WL = {f: set(bvh.self_collision_whitelists_.get(f, ())) for f in frames}
    asym = any((g in WL[f]) != (f in WL.get(g, set())) for f in frames for g in frames if g in WL)
    if asym:
        ev["robots_with_asymmetric_whitelists"] += 1
    rec["cls"] = "colliders=%d|%s|extras=%d" % (min(len(frames), 9), "asym" if asym else "sym", len(extras))
    nsteps = int(rng.integers(3, 11 if tier == "quick" else 21))
    other_bvh = _other_bvh(rng, sc)
    for step in range(nsteps):
        try:
            for jn, typ, lo, hi in joints:
                if typ != "fixed" and rng.random() < 0.7:
                    v = float(rng.uniform(lo, hi)) if rng.random() < 0.8 else float(rng.choice([lo, hi, 0.0]))
                    tm.set_joint(jn, v)
            if base_moves and rng.random() < 0.3:
                tm.add_transform("robot", "origin", O.pose(gen.rand_rot(rng), rng.normal(size=3) * sc))
            for frame, parent, spec in extras:
                if rng.random() < 0.3:
                    newT = O.pose(gen.rand_rot(rng), rng.normal(size=3) * sc * 0.5)
                    if parent == "origin" and rng.random() < 0.7:
                        pose_buffers[frame][...] = newT
                        tm.add_transform(frame, parent, pose_buffers[frame])
                        ev["inplace_pose_edits"] = ev.get("inplace_pose_edits", 0) + 1
                    else:
                        tm.add_transform(frame, parent, newT)
                elif rng.random() < 0.1:
                    # the collider of an existing frame is replaced (same shape, constructed somewhere else): after
                    # update_collider_poses it has to sit at the frame's current transform
                    sp_else = dict(spec, T=np.ascontiguousarray(O.pose(gen.rand_rot(rng), rng.normal(size=3) * 3)))
                    bvh.add_collider(frame, gen.build(sp_else))
                    ev["collider_replacements"] = ev.get("collider_replacements", 0) + 1
            bvh.update_collider_poses()
        except Exception as e:  # noqa: BLE001
            fail("update-exception", "step %d raised %s: %s" % (step, type(e).__name__, str(e)[:200]), exc=type(e).__name__)
            break
        ev["steps"] += 1
        # ---- pose model
        for f in frames:
            try:
                T = tm.get_transform(f, "origin")
                c2o = np.asarray(bvh.colliders_[f].collider2origin(), float)
                from distance3d.colliders import Sphere
                if isinstance(bvh.colliders_[f], Sphere):
                    e = float(np.abs(c2o[:3, 3] - T[:3, 3]).max())
                else:
                    e = float(np.abs(c2o - T).max())
                ev["pose_checks"] += 1
                worst["pose error"] = max(worst.get("pose error", 0.0), e)
                if e > TOL * max(1.0, float(np.abs(T[:3, 3]).max())):
                    fail("stale-pose", "step %d: collider %s is at a pose that differs from the transform manager by %.3g" % (step, f, e))
                # the geometry the narrow phase sees (support points) must be at that pose as well: compare with a
                # collider of the same parameters constructed directly at the transform manager's pose
                fresh = _fresh_like(bvh.colliders_[f], np.ascontiguousarray(np.array(T, dtype=float)))
                if fresh is not None:
                    ev["geometry_checks"] = ev.get("geometry_checks", 0) + 1
                    for dd in (gen.rand_dir(rng), gen.rand_dir(rng)):
                        pa = np.asarray(bvh.colliders_[f].support_function(dd), float); pb = np.asarray(fresh.support_function(dd), float)
                        eg = abs(float(pa @ dd) - float(pb @ dd))
                        worst["support value vs fresh collider"] = max(worst.get("support value vs fresh collider", 0.0), eg)
                        if eg > 1e-9 * max(1.0, float(np.abs(T[:3, 3]).max()), float(np.abs(pb).max())):
                            fail("stale-geometry", "step %d: support point of collider %s differs from a fresh collider at the transform manager's pose by %.3g" % (step, f, eg))
                            break
            except Exception as e2:  # noqa: BLE001
                fail("pose-exception", "collider2origin/get_transform raised %s" % type(e2).__name__, exc=type(e2).__name__)
        # ---- broad phase model
        try:
            boxes = {f: np.asarray(bvh.colliders_[f].aabb(), float) for f in frames}
        except Exception as e:  # noqa: BLE001
            fail("aabb-exception", "aabb() raised %s" % type(e).__name__, exc=type(e).__name__)
            break
        queries = []
        for _ in range(2):
            qs = gen.rand_spec(rng, str(rng.choice(["sphere", "box", "capsule", "cylinder"])), scale=sc,
                               c=rng.normal(size=3) * sc, far_ok=False)
            queries.append((gen.build(qs), ()))
        if frames:
            f0 = frames[int(rng.integers(len(frames)))]
            queries.append((bvh.colliders_[f0], tuple(WL[f0]) if rng.random() < 0.5 else ()))
        for q, wl in queries:
            try:
                got = bvh.aabb_overlapping_colliders(q, whitelist=wl)
                qb = np.asarray(q.aabb(), float)
            except Exception as e:  # noqa: BLE001
                fail("query-exception", "aabb_overlapping_colliders raised %s: %s" % (type(e).__name__, str(e)[:160]), exc=type(e).__name__)
                continue
            ev["broad_phase_queries"] += 1
            want = {f for f in frames if _overlap(boxes[f], qb) and f not in wl}
            if set(got.keys()) != want:
                fail("wrong-broad-phase", "step %d: aabb_overlapping_colliders: missing %s, spurious %s" % (
                    step, sorted(want - set(got.keys())), sorted(set(got.keys()) - want)),
                    query="collider", missing=bool(want - set(got.keys())), spurious=bool(set(got.keys()) - want))
            elif any(got[f] is not bvh.colliders_[f] for f in got):
                fail("wrong-payload", "aabb_overlapping_colliders returned a collider that is not the one registered for its frame")
        try:
            pairs = bvh.aabb_overlapping_with_self()
            ev["broad_phase_queries"] += 1
            gotp = sorted((a[0], b[0]) for a, b in pairs)
            wantp = sorted((f, g) for f in frames for g in frames if f != g and _overlap(boxes[f], boxes[g]))
            if gotp != wantp:
                fail("wrong-broad-phase", "step %d: aabb_overlapping_with_self: %d pairs, brute force %d (missing %s, spurious %s)" % (
                    step, len(gotp), len(wantp), sorted(set(wantp) - set(gotp))[:4], sorted(set(gotp) - set(wantp))[:4]),
                    query="self", missing=bool(set(wantp) - set(gotp)), spurious=bool(set(gotp) - set(wantp)) or len(gotp) != len(set(gotp)))
            elif any(a[1] is not bvh.colliders_[a[0]] or b[1] is not bvh.colliders_[b[0]] for a, b in pairs):
                fail("wrong-payload", "aabb_overlapping_with_self returned a payload that does not match its frame")
        except Exception as e:  # noqa: BLE001
            fail("query-exception", "aabb_overlapping_with_self raised %s: %s" % (type(e).__name__, str(e)[:160]), exc=type(e).__name__)
        for ob, oname in ((other_bvh, "other"), (_empty_bvh(), "empty")):
            try:
                pairs = bvh.aabb_overlapping_with_other_bvh(ob)
                ev["broad_phase_queries"] += 1
                ob_boxes = {f: np.asarray(c.aabb(), float) for f, c in ob.colliders_.items()}
                gotp = sorted((a[0], b[0]) for a, b in pairs)
                wantp = sorted((f, g) for f in frames for g in ob_boxes if _overlap(boxes[f], ob_boxes[g]))
                if gotp != wantp:
                    fail("wrong-broad-phase", "step %d: aabb_overlapping_with_other_bvh(%s): %d pairs, brute force %d" % (step, oname, len(gotp), len(wantp)),
                         query=oname, missing=bool(set(wantp) - set(gotp)), spurious=bool(set(gotp) - set(wantp)) or len(gotp) != len(set(gotp)))
            except Exception as e:  # noqa: BLE001
                fail("query-exception", "aabb_overlapping_with_other_bvh(%s) raised %s: %s" % (oname, type(e).__name__, str(e)[:160]),
                     exc=type(e).__name__, query=oname)
        # ---- self collision model
        try:
            X = {}
            undecided = set()
            for i, f in enumerate(frames):
                for g in frames[i:]:
                    a = bool(gjk.gjk_intersection(bvh.colliders_[f], bvh.colliders_[g]))
                    b = bool(gjk.gjk_intersection(bvh.colliders_[g], bvh.colliders_[f])) if g != f else a
                    X[(f, g)] = X[(g, f)] = a or b
                    if a != b:
                        undecided.add((f, g)); undecided.add((g, f))
            ev["undecided_pairs"] += len(undecided) // 2
            must = {f for f in frames if any(X[(f, g)] and (f, g) not in undecided and g not in WL[f] for g in frames)}
            may = {f for f in frames if any(X[(f, g)] and (g not in WL[f] or f not in WL[g]) for g in frames)}
            contacts = self_collision.detect(bvh)
            anyc = self_collision.detect_any(bvh)
            ev["self_collision_checks"] += 1
            marked = {f for f, v in contacts.items() if v}
            ev["frames_in_contact"] += len(marked)
            if set(contacts.keys()) != set(frames):
                fail("wrong-self-collision", "detect returned keys %s, frames are %s" % (sorted(contacts)[:5], sorted(frames)[:5]), sub="keys")
            if not must <= marked:
                fail("wrong-self-collision", "step %d: detect misses %s (collides with a frame outside its whitelist); marked %s" % (
                    step, sorted(must - marked), sorted(marked)), sub="missed", asymmetric=asym)
            if not marked <= may:
                fail("wrong-self-collision", "step %d: detect marks %s which collides with nothing it may collide with" % (step, sorted(marked - may)),
                     sub="spurious", asymmetric=asym)
            must_any = bool(must)
            may_any = bool({f for f in frames if any(X[(f, g)] and g not in WL[f] for g in frames)})
            if bool(anyc) != must_any and not (bool(anyc) and may_any):
                fail("wrong-self-collision", "step %d: detect_any=%s but brute force says %s" % (step, anyc, must_any), sub="detect_any", asymmetric=asym)
        except Exception as e:  # noqa: BLE001
            fail("self-collision-exception", "self collision detection raised %s: %s" % (type(e).__name__, str(e)[:200]), exc=type(e).__name__)
    rec["nontrivial"] = len(frames) >= 3 and nsteps >= 2
    rec.update(events=ev, viol=viol, worst=worst)
    return rec


def _other_bvh(rng, sc):
    from pytransform3d.transform_manager import TransformManager
    from distance3d.broad_phase import BoundingVolumeHierarchy
    tm = TransformManager(check=False)
    b = BoundingVolumeHierarchy(tm, "base2")
    for k in range(int(rng.integers(1, 5))):
        s = gen.rand_spec(rng, str(rng.choice(["sphere", "box", "capsule", "cylinder", "cone"])), scale=sc, c=rng.normal(size=3) * sc, far_ok=False)
        b.add_collider("o%d" % k, gen.build(s))
    return b


def _empty_bvh():
    from pytransform3d.transform_manager import TransformManager
    from distance3d.broad_phase import BoundingVolumeHierarchy
    return BoundingVolumeHierarchy(TransformManager(check=False), "base3")
