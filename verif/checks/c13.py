"""C13 - point containment predicates agree with the shapes, with the library's
own point_to_<shape> distances and with the colliders' support functions.

Oracle: certified inscribed-ball depth (True side) and closed-form distance
(False side); nothing is judged inside the 1e-9*L band around the boundary.
Batch independence: every batch is evaluated again permuted and in two halves.
"""
import numpy as np

from .. import gen, oracles as O

ID = "C13"
PROPNUM = 13
LEVEL = "exploration"
TOL = 1e-9
MODES = {"quick": ["jit"] * 12 + ["bounds"] * 4, "thorough": ["jit"] * 12 + ["bounds"] * 4}
CASE_TIMEOUT_S = 120
KINDS8 = ["sphere", "capsule", "ellipsoid", "disk", "cone", "cylinder", "box", "mesh"]
LAMBDAS = [0.0, 0.5, 0.99, 1 - 1e-6, 1 + 1e-6, 1.01, 2.0]
RULE = ("one case = one shape (the eight predicate types in turn; domain P: sizes 0.2..100, all rotation classes, centres up "
        "to 700 away) with a batch of 200-400 points generated FROM the shape: c + lambda*(s(d)-c) for support points s(d) of "
        "hostile directions (axes, diagonals, exact zeros) and lambda in {0,.5,.99,1-1e-6,1+1e-6,1.01,2}; apex/rim/corner "
        "neighbourhoods (support point +- 1e-7..1e-3 of the size along random directions); points on the shape axes; far "
        "points. Judged element-wise: depth>=1e-9L => True, dist>=1e-9L => False; same answers for the permuted batch and for "
        "the two halves; cross-checks against point_to_box/disk/cylinder/ellipsoid and against the collider's support value. "
        "non-trivial = every case; distinct = distinct (spec, first points) hashes")
ASSUMPTIONS = ["oracle depth() is a certified lower bound of the inscribed-ball radius, dist() the exact distance",
               "disk: the True side is only judged when the plane arithmetic is exact (axis-aligned normal, coordinates "
               "representable) because a flat shape has no interior margin"]
MIN_EVENTS = {"points_judged_inside": 100000, "points_judged_outside": 100000, "predicate_calls": 5000, "cross_checks": 20000}


def cases(tier):
    return 2400 if tier == "quick" else 40000


def _call(spec, P):
    from distance3d import containment_test as K
    k = spec["kind"]
    f = lambda a: np.array(a, dtype=float, order="C")  # noqa: E731
    if k == "sphere":
        return K.points_in_sphere(P, f(spec["c"]), spec["r"])
    if k == "capsule":
        return K.points_in_capsule(P, f(spec["T"]), spec["r"], spec["h"])
    if k == "ellipsoid":
        return K.points_in_ellipsoid(P, f(spec["T"]), f(spec["radii"]))
    if k == "disk":
        return K.points_in_disk(P, f(spec["c"]), spec["r"], f(spec["n"]))
    if k == "cone":
        return K.points_in_cone(P, f(spec["T"]), spec["r"], spec["h"])
    if k == "cylinder":
        return K.points_in_cylinder(P, f(spec["T"]), spec["r"], spec["l"])
    if k == "box":
        return K.points_in_box(P, f(spec["T"]), f(spec["size"]))
    V = f(spec["V"])
    return K.points_in_convex_mesh(P, f(spec["T"]), V, gen.triangles_for(V))


def _lib_distance(spec, p):
    from distance3d import distance as D
    k = spec["kind"]
    f = lambda a: np.array(a, dtype=float, order="C")  # noqa: E731
    if k == "box":
        return D.point_to_box(f(p), f(spec["T"]), f(spec["size"]))[0]
    if k == "disk":
        return D.point_to_disk(f(p), f(spec["c"]), spec["r"], f(spec["n"]))[0]
    if k == "cylinder":
        return D.point_to_cylinder(f(p), f(spec["T"]), spec["r"], spec["l"])[0]
    if k == "ellipsoid":
        return D.point_to_ellipsoid(f(p), f(spec["T"]), f(spec["radii"]))[0]
    return None


def run_case(rng, idx, tier):
    kind = KINDS8[idx % 8]
    spec = gen.rand_spec(rng, kind, smin=0.2, smax=100.0)
    exact_disk = False
    if kind == "disk" and rng.random() < 0.6:
        # exact plane arithmetic: axis-aligned normal, dyadic centre and radius
        n = np.zeros(3); n[int(rng.integers(3))] = float(rng.choice([-1.0, 1.0]))
        spec = {"kind": "disk", "c": rng.integers(-8, 9, size=3).astype(float) / 4.0, "r": float(rng.integers(1, 40)) / 4.0, "n": n}
        exact_disk = True
    o = O.oracle(spec)
    L = O.scene_L([o])
    c, _ = o.deep_point()
    frames = [np.asarray(spec["T"])[:3, :3]] if "T" in spec else []
    dirs = gen.rand_dirs(rng, 28, frames)
    pts = []
    for d in dirs:
        s = o.sup(d)
        for lam in LAMBDAS:
            pts.append(c + lam * (s - c))
        # feature neighbourhood
        pts.append(s + gen.rand_dir(rng) * o.scale() * 10 ** rng.uniform(-7, -3))
        # just outside the band: the support point pushed out along the direction by delta has distance exactly delta
        dh = d / np.linalg.norm(d)
        for delta in (2e-9, 1e-8, 1e-6):
            pts.append(s + dh * delta * L)
    if kind == "mesh":
        # points just outside the interior of random faces (incl. sliver faces of chamfered meshes)
        Vw = np.asarray(spec["V"], float) @ np.asarray(spec["T"], float)[:3, :3].T + np.asarray(spec["T"], float)[:3, 3]
        tri = gen.triangles_for(np.array(spec["V"], dtype=float, order="C"))
        for t in tri[rng.choice(len(tri), size=min(12, len(tri)), replace=False)]:
            a, b, c_ = Vw[t[0]], Vw[t[1]], Vw[t[2]]
            nrm = np.cross(b - a, c_ - a)
            if np.linalg.norm(nrm) > 0:
                nrm = nrm / np.linalg.norm(nrm)
                w = rng.dirichlet(np.ones(3))
                q = w[0] * a + w[1] * b + w[2] * c_
                for delta in (2e-9, 1e-8, 1e-6):
                    pts.append(q + nrm * delta * L)
    R = frames[0] if frames else np.eye(3)
    for i in range(3):
        for t in (-1.5, -1.0, -0.5, 0.0, 0.5, 1.0, 1.5):
            pts.append(o.center() + t * 0.5 * o.scale() * R[:, i])
    for _ in range(10):
        pts.append(o.center() + gen.rand_dir(rng) * o.scale() * rng.uniform(2, 50))
    if exact_disk:
        # in-plane lattice points (exactly representable): judged on the True side
        a = [i for i in range(3) if spec["n"][i] == 0]
        for _ in range(40):
            q = spec["c"].copy()
            q[a[0]] += float(rng.integers(-40, 41)) / 8.0; q[a[1]] += float(rng.integers(-40, 41)) / 8.0
            pts.append(q)
    P = np.ascontiguousarray(np.array(pts, dtype=float))
    viol = []; worst = {}
    ev = {"points_judged_inside": 0, "points_judged_outside": 0, "points_in_band": 0, "predicate_calls": 0, "cross_checks": 0}
    name = O.name(spec)
    rec = {"cls": "%s|%s" % (name, gen.scale_bucket(o.scale())), "nontrivial": True,
           "sig": repr((O.describe(spec), P[:3].tolist())), "sample": {"spec": O.describe(spec), "points": P[:4].tolist(), "n_points": len(P)}}
    try:
        res = np.asarray(_call(spec, P))
        ev["predicate_calls"] += 1
    except Exception as e:  # noqa: BLE001
        viol.append({"key": {"shape": kind, "kind": "exception", "exc": type(e).__name__}, "err": None,
                     "msg": "points_in_%s raised %s: %s" % (kind, type(e).__name__, str(e)[:200])})
        rec.update(events=ev, viol=viol, worst=worst)
        return rec
    if res.shape != (len(P),) or res.dtype != bool:
        viol.append({"key": {"shape": kind, "kind": "bad-output"}, "err": None, "msg": "points_in_%s returned shape %s dtype %s" % (kind, res.shape, res.dtype)})
        rec.update(events=ev, viol=viol, worst=worst)
        return rec
    # --- element-wise oracle
    flat = kind == "disk"
    truth = [None] * len(P)
    for i, p in enumerate(P):
        dist = o.dist(p)
        if dist >= TOL * L:
            ev["points_judged_outside"] += 1
            truth[i] = False
            if res[i]:
                viol.append({"key": {"shape": kind, "kind": "outside-point-reported-inside"}, "err": float(dist / L),
                             "msg": "points_in_%s: point %s is %.3g*L outside but reported contained" % (kind, p.tolist(), dist / L)})
            continue
        if flat:
            inside_ok = exact_disk and dist == 0.0 and (np.linalg.norm(p - spec["c"]) <= spec["r"] * (1 - 1e-9))
        else:
            inside_ok = o.depth(p) >= TOL * L
        if inside_ok:
            ev["points_judged_inside"] += 1
            truth[i] = True
            if not res[i]:
                dd = 0.0 if flat else o.depth(p) / L
                viol.append({"key": {"shape": kind, "kind": "inside-point-reported-outside", "exact_disk": exact_disk}, "err": float(dd),
                             "msg": "points_in_%s: point %s is %.3g*L inside but reported not contained" % (kind, p.tolist(), dd)})
        else:
            ev["points_in_band"] += 1
    # --- batch independence
    try:
        perm = rng.permutation(len(P))
        r2 = np.asarray(_call(spec, np.ascontiguousarray(P[perm])))
        h = len(P) // 2
        r3 = np.concatenate([np.asarray(_call(spec, np.ascontiguousarray(P[:h]))), np.asarray(_call(spec, np.ascontiguousarray(P[h:])))])
        ev["predicate_calls"] += 3
        if not np.array_equal(r2, res[perm]) or not np.array_equal(r3, res):
            nbad = int(np.sum(r2 != res[perm]) + np.sum(r3 != res))
            viol.append({"key": {"shape": kind, "kind": "batch-dependent"}, "err": float(nbad),
                         "msg": "points_in_%s: %d answers change when the batch is permuted or split" % (kind, nbad)})
    except Exception as e:  # noqa: BLE001
        viol.append({"key": {"shape": kind, "kind": "exception", "exc": type(e).__name__, "where": "batch"}, "err": None,
                     "msg": "points_in_%s raised %s on a permuted/split batch" % (kind, type(e).__name__)})
    # --- batches of one point (judged against the oracle's truth, so points in the undecided band are skipped)
    decided = [i for i in range(len(P)) if truth[i] is not None]
    for i in (rng.choice(decided, size=min(4, len(decided)), replace=False) if decided else []):
        try:
            r1 = np.asarray(_call(spec, np.ascontiguousarray(P[i:i + 1])))
            ev["predicate_calls"] += 1
            ev["single_point_batches"] = ev.get("single_point_batches", 0) + 1
            if r1.shape != (1,) or bool(r1[0]) != truth[i]:
                viol.append({"key": {"shape": kind, "kind": "single-point-batch"}, "err": None,
                             "msg": "points_in_%s: batch of the single point %s gives %s (shape %s), truth %s" % (kind, P[i].tolist(), r1.tolist(), r1.shape, truth[i])})
        except Exception as e:  # noqa: BLE001
            viol.append({"key": {"shape": kind, "kind": "exception", "exc": type(e).__name__, "where": "single-point batch"}, "err": None,
                         "msg": "points_in_%s raised %s on a batch of one point" % (kind, type(e).__name__)})
    # --- cross checks (a sample of the batch)
    sel = rng.choice(len(P), size=min(40, len(P)), replace=False)
    col = None
    try:
        col = gen.build(spec)
    except Exception:  # noqa: BLE001
        pass
    for i in sel:
        p = P[i]
        dist = o.dist(p)
        band = not (dist >= TOL * L or (not flat and o.depth(p) >= TOL * L) or (flat and exact_disk and dist == 0.0))
        try:
            dl = _lib_distance(spec, p)
        except Exception as e:  # noqa: BLE001
            dl = None
            viol.append({"key": {"shape": kind, "kind": "exception", "exc": type(e).__name__, "where": "point_to"}, "err": None,
                         "msg": "point_to_%s raised %s" % (kind, type(e).__name__)})
        if dl is not None and not band:
            ev["cross_checks"] += 1
            if bool(dl <= TOL * L) != bool(res[i]):
                viol.append({"key": {"shape": kind, "kind": "disagrees-with-point_to_distance"}, "err": float(abs(dl) / L),
                             "msg": "points_in_%s=%s but point_to_%s distance is %.3g (oracle distance %.3g)" % (kind, bool(res[i]), kind, dl, dist)})
        if col is not None and res[i]:
            d = gen.rand_dir(rng)
            try:
                hv = float(np.dot(col.support_function(np.ascontiguousarray(d)), d))
                ev["cross_checks"] += 1
                ex = (float(p @ d) - hv) / L
                worst["contained point beyond support /L"] = max(worst.get("contained point beyond support /L", -1.0), ex)
                if ex > TOL:
                    viol.append({"key": {"shape": kind, "kind": "contained-point-beyond-support"}, "err": float(ex),
                                 "msg": "points_in_%s: contained point projects %.3g*L beyond the collider's support value" % (kind, ex)})
            except Exception:  # noqa: BLE001
                pass
    rec.update(events=ev, viol=viol, worst=worst)
    return rec
