"""C10 - primitive distance functions return points on their primitives, consistently.

For each of the 34 functions of distance3d.distance (list read from the module:
a new or missing export is reported): finite d >= 0, returned points on their
primitives (1e-9*L), |p1-p2| = d (1e-6*L), d = 0 => the points coincide in a
common point; never raise / NaN.
"""
import numpy as np

from .. import gen, monitors, prims

ID = "C10"
PROPNUM = 10
LEVEL = "exploration"
TOL_MEMBER = 1e-9
TOL_CONS = 1e-6
MODES = {"quick": ["jit"] * 12 + ["bounds"] * 4, "thorough": ["jit"] * 12 + ["bounds"] * 4}
CASE_TIMEOUT_S = 120
NAMES = sorted(prims.FUNCTIONS) + sorted(prims.VARIANTS)
RULE = ("one case = one call of one of the 34 exported functions (+ point_to_ellipsoid(distance_to_surface=True)), function "
        "chosen by index so that all are exercised equally; both primitives are generated in a SHARED random frame with "
        "positions on a half-size lattice (80% structured: directions = +-frame axes or sums of axes, so exactly parallel / "
        "perpendicular / coplanar / coincident / touching / contained placements occur; 20% generic), sizes in [0.2,100], "
        "scene centres up to 700 from the origin. Judged: finiteness, d >= 0, membership of both returned points (oracle "
        "distance to the primitive <= 1e-9 L), | |p1-p2| - d | <= 1e-6 L, d == 0 => |p1-p2| <= 1e-6 L. non-trivial = structured "
        "scene (degenerate placement class); distinct = distinct (function, arguments) hashes")
ASSUMPTIONS = ["oracle point-to-primitive distances (closed forms; NNLS for triangles/rectangles/segments as hulls)",
               "returned points are (d, point on first primitive, point on second primitive) in argument order"]
MIN_EVENTS = {"calls": 10000, "functions_exercised": 35}


def cases(tier):
    return 1000 * len(NAMES) if tier == "quick" else 10000 * len(NAMES)


def setup(tier):
    from distance3d import distance as D
    exported = set(D.__all__)
    known = set(prims.FUNCTIONS)
    if exported != known:
        raise RuntimeError("distance3d.distance.__all__ changed: missing %s, new %s" % (sorted(known - exported), sorted(exported - known)))


_seen = set()


def make_case(rng, idx):
    name = NAMES[idx % len(NAMES)]
    if name in prims.VARIANTS:
        fname, (k1, k2), kwargs = prims.VARIANTS[name]
    else:
        fname, (k1, k2), kwargs = name, prims.FUNCTIONS[name], {}
    sc = prims.Scene(rng, structured=bool(rng.random() < 0.8))
    p1 = prims.make(k1, sc); p2 = prims.make(k2, sc)
    sc.contact = False
    if p1.kind == "point" and p2.kind in ("circle", "disk", "cylinder", "ellipsoid", "ellipsoid_surface", "box") and rng.random() < 0.1:
        # exactly on the symmetry axis: integer centre, coordinate-axis normal, dyadic offset (in-plane part exactly zero)
        k = int(rng.integers(3)); e = np.zeros(3); e[k] = float(rng.choice([-1.0, 1.0]))
        c = rng.integers(-5, 6, size=3).astype(float)
        t = float(rng.choice([0.0, 0.5, -0.5, 1.0, -2.0, 4.0, 0.25]))
        if p2.kind in ("circle", "disk"):
            p2 = prims.rebuild(p2.kind, (c, p2.args[1], e))
        else:
            R = np.eye(3)[:, [(k + 1) % 3, (k + 2) % 3, k]] * np.array([1.0, 1.0, e[k]])
            if np.linalg.det(R) < 0:
                R[:, 0] *= -1
            T = np.eye(4); T[:3, :3] = R; T[:3, 3] = c
            p2 = prims.rebuild(p2.kind, (T,) + tuple(p2.args[1:]))
        p1 = prims.rebuild("point", (c + t * e,))
        sc.contact = True
        return name, fname, kwargs, sc, p1, p2
    if p2.kind in ("triangle", "rectangle") and p1.kind != "point" and rng.random() < 0.12:
        # grazing class: the first primitive passes through a point that lies in the plane of the polygon just OUTSIDE one
        # of its edges (gap 1e-9 .. 1e-4 of the size): a near miss, not a hit
        try:
            if p2.kind == "triangle":
                V = np.asarray(p2.args[0], float)
            else:
                c_, ax_, ln_ = p2.args
                V = np.array([c_ + sx * 0.5 * ln_[0] * ax_[0] + sy * 0.5 * ln_[1] * ax_[1] for sx, sy in ((-1, -1), (1, -1), (1, 1), (-1, 1))])
            k = int(rng.integers(len(V)))
            a_, b_ = V[k], V[(k + 1) % len(V)]
            nrm = np.cross(V[1] - V[0], V[2] - V[0]); nrm /= np.linalg.norm(nrm)
            out = np.cross(b_ - a_, nrm); out /= np.linalg.norm(out)
            if out @ (V.mean(axis=0) - a_) > 0:
                out = -out
            size_ = float(np.linalg.norm(b_ - a_))
            q = a_ + rng.uniform(0.15, 0.85) * (b_ - a_) + out * size_ * 10 ** rng.uniform(-9, -4)
            p1 = prims.translated(p1, q - prims.some_point_of(p1, rng))
            sc.contact = True
            return name, fname, kwargs, sc, p1, p2
        except Exception:  # noqa: BLE001
            pass
    if p1.kind in ("line", "segment") and p2.kind in ("line", "segment") and rng.random() < 0.2:
        # just outside the epsilon band: directions enclose an angle with sine 0.0105 .. 0.08 (not 'nearly parallel' in the
        # sense of the property), short segments (0.2 .. 0.6) that cross in projection with a gap of 0 or a fraction of
        # their length: closed-form denominators |d1|^2 |d2|^2 sin^2 are smallest here (C11r5-a)
        try:
            d1 = np.asarray(p1.dirs[0], float); d1 = d1 / np.linalg.norm(d1)
            u = np.cross(d1, gen.rand_dir(rng)); u /= np.linalg.norm(u)
            w = np.cross(d1, u)
            sn = 10 ** rng.uniform(np.log10(0.0105), np.log10(0.08))
            d2 = (np.sqrt(1 - sn * sn) * d1 + sn * u) * float(rng.choice([-1.0, 1.0]))
            if p1.kind == "segment":
                a1 = np.asarray(p1.args[0], float)
                l1 = float(rng.uniform(0.2, 0.6)) if rng.random() < 0.7 else float(np.linalg.norm(np.asarray(p1.args[1]) - a1))
                p1 = prims.rebuild("segment", (a1, a1 + d1 * l1))
                m1 = a1 + d1 * l1 * rng.uniform(0.2, 0.8)
            else:
                m1 = np.asarray(p1.args[0], float) + d1 * rng.uniform(-1, 1)
            l2 = float(rng.uniform(0.2, 0.6))
            q = m1 + w * l2 * float(rng.choice([0.0, 1e-3, 0.05, 0.5]))
            if p2.kind == "segment":
                a2 = q - d2 * l2 * rng.uniform(0.2, 0.8)
                p2 = prims.rebuild("segment", (a2, a2 + d2 * l2))
            else:
                p2 = prims.rebuild("line", (q + d2 * rng.uniform(-1, 1), d2))
            sc.contact = True
            return name, fname, kwargs, sc, p1, p2
        except Exception:  # noqa: BLE001
            pass
    if rng.random() < 0.25:
        # contact class: a point of the first primitive coincides with a point of the second (true distance 0,
        # lines piercing triangles/rectangles/boxes, primitives touching at a feature)
        try:
            p1 = prims.translated(p1, prims.some_point_of(p2, rng) - prims.some_point_of(p1, rng))
            sc.contact = True
        except Exception:  # noqa: BLE001
            pass
    return name, fname, kwargs, sc, p1, p2


def run_case(rng, idx, tier):
    name, fname, kwargs, sc, p1, p2 = make_case(rng, idx)
    L = prims.pair_L(p1, p2)
    viol = []; worst = {}
    ev = {"calls": 0}
    if name not in _seen:
        _seen.add(name); ev["functions_exercised"] = 1
    band = prims.in_band(p1, p2)
    key0 = {"fn": name, "structured": sc.structured, "band": band, "sliver_triangle": prims.has_sliver(p1, p2)}
    if p2.kind in ("ellipsoid", "ellipsoid_surface") and p1.kind == "point":
        # mechanism predicate for K6: query point inside the ellipsoid with a vanishing local coordinate
        so = p2.orc.solid if p2.kind == "ellipsoid_surface" else p2.orc
        ql = so.loc(np.asarray(p1.args[0], float))
        inside = bool(np.sum((ql / so.e) ** 2) < 1.0)
        key0["interior_point_on_principal_plane"] = bool(inside and np.min(np.abs(ql)) <= 1e-9 * max(1.0, float(so.e.max())))
        key0["small_ellipsoid"] = bool(so.e.max() < 0.5)     # mechanism predicate for K25
    if p2.kind == "circle":
        # mechanism predicate for K5: a query point within sqrt(epsilon)=1e-3 (absolute) of the circle's axis
        cir = p2.orc
        qs = [np.asarray(a, float) for a in p1.args if isinstance(a, np.ndarray) and a.shape == (3,)][:2] if p1.kind in ("point", "segment") else []
        rho = [float(np.linalg.norm((q - cir.c) - ((q - cir.c) @ cir.n) * cir.n)) for q in qs]
        key0["query_point_near_circle_axis"] = bool(rho and min(rho) < 2e-3)
    rec = {"cls": "%s|%s%s" % (name, "structured" if sc.structured else "generic", "|contact" if sc.contact else ""),
           "nontrivial": sc.structured or sc.contact,
           "sig": repr((name, p1.describe(), p2.describe())),
           "sample": {"fn": name, "kwargs": kwargs, "p1": p1.describe(), "p2": p2.describe()}}
    try:
        res = prims.call(fname, p1, p2, kwargs)
    except Exception as e:  # noqa: BLE001
        viol.append({"key": dict(key0, kind="exception", exc=type(e).__name__), "err": None,
                     "msg": "%s raised %s: %s" % (name, type(e).__name__, str(e)[:200])})
        rec.update(events=ev, viol=viol, worst=worst)
        return rec
    ev["calls"] += 1
    d = res[0]
    if p1.kind == "point":
        q1 = np.asarray(p1.args[0], float); q2 = res[1]
    else:
        q1, q2 = res[1], res[2]
    if not monitors.finite(d, q1, q2) or np.shape(q1) != (3,) or np.shape(q2) != (3,):
        viol.append({"key": dict(key0, kind="non-finite"), "err": None, "msg": "%s returned d=%r p1=%r p2=%r" % (name, d, q1, q2)})
        rec.update(events=ev, viol=viol, worst=worst)
        return rec
    d = float(d); q1 = np.asarray(q1, float); q2 = np.asarray(q2, float)

    def bad(kind, err, msg):
        viol.append({"key": dict(key0, kind=kind), "err": float(err), "msg": "%s: %s" % (name, msg)})

    if d < 0:
        bad("negative", -d / L, "negative distance %r" % d)
    m1 = p1.dist(q1) / L; m2 = p2.dist(q2) / L
    worst["membership/L:" + name] = max(m1, m2)
    if m1 > TOL_MEMBER:
        bad("first-point-off-primitive", m1, "returned point on the %s is %.3g*L away from it" % (p1.kind, m1))
    if m2 > TOL_MEMBER:
        bad("second-point-off-primitive", m2, "returned point on the %s is %.3g*L away from it" % (p2.kind, m2))
    cons = abs(float(np.linalg.norm(q1 - q2)) - d) / L
    worst["consistency/L:" + name] = cons
    if cons > TOL_CONS:
        bad("inconsistent", cons, "| |p1-p2| - d | = %.3g*L (d=%.9g, |p1-p2|=%.9g)" % (cons, d, np.linalg.norm(q1 - q2)))
    if d == 0.0:
        sep = float(np.linalg.norm(q1 - q2)) / L
        if sep > TOL_CONS:
            bad("zero-distance-distinct-points", sep, "d == 0 but the points are %.3g*L apart" % sep)
    rec.update(events=ev, viol=viol, worst=worst)
    return rec
