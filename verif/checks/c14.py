"""C14 - a collider after update_pose behaves like a freshly built one at that pose.

Executable model: after every step of a history of update_pose() calls and
queries, a NEW collider of the same parameters is constructed directly at the
current pose; every observable of the long-lived object must equal the fresh
one's (1e-9*L; support points through their projection for meshes, whose ties
may be broken differently by the cached start vertex), and no query may raise.
"""
import numpy as np

from .. import gen, oracles as O

ID = "C14"
PROPNUM = 14
LEVEL = "exploration"
TOL = 1e-9
MODES = {"quick": ["jit"] * 12 + ["bounds"] * 4, "thorough": ["jit"] * 12 + ["bounds"] * 4}
CASE_TIMEOUT_S = 120
KINDS9 = ["sphere", "ellipsoid", "capsule", "cylinder", "cone", "box", "disk", "ellipse", "mesh"]
RULE = ("one case = one collider (9 types implementing update_pose, 25% wrapped in Margin) and a history of 1-10 poses "
        "(rotation classes haar/axis/perm/ident/tiny/product, translations up to 100) handed over as (a) a fresh C-contiguous "
        "array, (b) one matrix of a C-contiguous (n,4,4) stack, (c) the array returned by pytransform3d "
        "TransformManager.get_transform, (d) one persistent pose buffer overwritten in place and handed over again; after every update the object is compared with a freshly constructed collider at "
        "that pose: 6 support queries (hostile directions), aabb, center, first_vertex, collider2origin, and "
        "gjk.gjk / gjk_intersection / mpr_intersection against a fixed probe collider; queries are interleaved so that caches "
        "(box vertices, mesh start vertex) are warm. non-trivial = history length >= 2; distinct = distinct (spec, poses) hashes")
ASSUMPTIONS = ["'same shape constructed directly at the pose': centre = pose[:3,3]; Disk normal = pose[:3,2]; Ellipse axes = pose[:3,:2].T",
               "support points of meshes are compared through their projection on the direction (ties)"]
MIN_EVENTS = {"updates": 3000, "observable_comparisons": 40000, "stack_poses": 500, "tm_poses": 300, "inplace_poses": 500, "caller_array_checks": 800}


def cases(tier):
    return 1200 if tier == "quick" else 24000


def with_pose(spec, T):
    k = spec["kind"]
    s = dict(spec)
    if k == "margin":
        s["base"] = with_pose(spec["base"], T); return s
    if "T" in spec:
        s["T"] = np.array(T, dtype=float)
    else:
        s["c"] = np.array(T[:3, 3], dtype=float)
        if k == "disk":
            s["n"] = np.array(T[:3, 2], dtype=float)
        elif k == "ellipse":
            s["axes"] = np.array(T[:3, :2].T, dtype=float)
    return s


def run_case(rng, idx, tier):
    from distance3d import gjk, mpr
    kind = KINDS9[idx % 9]
    spec = gen.rand_spec(rng, kind, margin_p=0.25, far_ok=False)
    col = gen.build(spec)
    probe_spec = gen.rand_spec(rng, far_ok=False)
    # caller-owned arrays: 40% of the colliders are constructed from a pose / parameter arrays that the caller keeps and
    # from which he also builds a second collider (the usual `start = np.eye(4)` pattern); neither those arrays nor the
    # sibling may change when `col` is moved
    shared = None; sib = None; shared_snap = None
    if rng.random() < 0.4:
        def own(sp):
            sp = dict(sp)
            if sp["kind"] == "margin":
                sp["base"] = own(sp["base"]); return sp
            for k_ in ("T", "c", "n", "axes", "radii", "size", "V"):
                if k_ in sp:
                    sp[k_] = np.array(sp[k_], dtype=float, order="C")
            return sp
        shared = own(spec)
        shared_snap = own(shared)
        col = gen.build(shared, copy=False)
        sib = gen.build(shared, copy=False)
    n = int(rng.integers(1, 11))
    viol = []; worst = {}
    ev = {"updates": 0, "observable_comparisons": 0, "stack_poses": 0, "tm_poses": 0, "fresh_poses": 0}
    poses = [O.pose(gen.rand_rot(rng), gen.center(rng, far_ok=False) * float(rng.choice([1.0, 1.0, 10.0]))) for _ in range(n)]
    stack = np.ascontiguousarray(np.array(poses))
    name = O.name(spec)
    tm = None
    buf = None
    hist = []
    for i in range(n):
        how = str(rng.choice(["fresh", "stack", "tm", "inplace"], p=[.3, .3, .15, .25]))
        try:
            if how == "fresh":
                T = np.array(poses[i], dtype=float, order="C"); ev["fresh_poses"] += 1
            elif how == "stack":
                T = stack[i]; ev["stack_poses"] += 1
            elif how == "inplace":
                # one pose buffer that the caller overwrites in place for every time step and hands over again
                if buf is None:
                    buf = np.zeros((2, 4, 4)); buf[:] = np.eye(4)
                    col.update_pose(buf[1]); ev["updates"] += 1
                buf[1][:] = poses[i]
                T = buf[1]; ev["inplace_poses"] = ev.get("inplace_poses", 0) + 1
            else:
                if tm is None:
                    from pytransform3d.transform_manager import TransformManager
                    tm = TransformManager(check=False)
                tm.add_transform("obj", "world", poses[i])
                T = tm.get_transform("obj", "world"); ev["tm_poses"] += 1
            col.update_pose(T)
            ev["updates"] += 1
        except Exception as e:  # noqa: BLE001
            viol.append({"key": {"type": kind, "margin": spec["kind"] == "margin", "kind": "exception", "where": "update_pose",
                                 "exc": type(e).__name__, "how": how}, "err": None,
                         "msg": "%s.update_pose(%s pose) raised %s: %s" % (name, how, type(e).__name__, str(e)[:160])})
            break
        hist.append(how)
        Texp = np.asarray(T, dtype=float)
        espec = with_pose(spec, Texp)
        fresh = gen.build(espec)
        o = O.oracle(espec)
        # the probe is placed near the object so that distance queries are meaningful
        pspec = O.translated(probe_spec, o.center() + gen.rand_dir(rng) * (o.scale() * rng.uniform(0.0, 1.5)) - O.oracle(probe_spec).center())
        probe = gen.build(pspec)
        L = O.scene_L([o, O.oracle(pspec)])
        key0 = {"type": kind, "margin": spec["kind"] == "margin", "how": how, "step": "first" if i == 0 else "later"}

        def cmp(what, f, mode="array"):
            try:
                a = f(col)
            except Exception as e:  # noqa: BLE001
                viol.append({"key": dict(key0, kind="exception", where=what, exc=type(e).__name__), "err": None,
                             "msg": "%s after update_pose (%s pose, step %d): %s raised %s: %s" % (name, how, i, what, type(e).__name__, str(e)[:160])})
                return
            try:
                b = f(fresh)
            except Exception:  # noqa: BLE001
                return      # the fresh object failing is not C14's business
            ev["observable_comparisons"] += 1
            if mode == "bool":
                if bool(a) != bool(b):
                    viol.append({"key": dict(key0, kind="differs-from-fresh", where=what), "err": None,
                                 "msg": "%s after update_pose (%s pose, step %d): %s = %r, fresh object %r" % (name, how, i, what, a, b)})
                return
            a = np.asarray(a, float); b = np.asarray(b, float)
            if a.shape != b.shape or not np.all(np.isfinite(a)):
                viol.append({"key": dict(key0, kind="differs-from-fresh", where=what), "err": None,
                             "msg": "%s after update_pose: %s returned %r, fresh %r" % (name, what, a, b)})
                return
            e = float(np.abs(a - b).max()) / L if a.size else 0.0
            worst[what + "/L"] = max(worst.get(what + "/L", 0.0), e)
            if e > (TOL if mode == "array" else 1e-6):
                viol.append({"key": dict(key0, kind="differs-from-fresh", where=what), "err": e,
                             "msg": "%s after update_pose (%s pose, step %d of %s): %s differs from a fresh object by %.3g*L" % (
                                 name, how, i, hist, what, e)})

        if shared is not None:
            ev["caller_array_checks"] = ev.get("caller_array_checks", 0) + 1
            b0 = shared["base"] if shared["kind"] == "margin" else shared
            s0 = shared_snap["base"] if shared_snap["kind"] == "margin" else shared_snap
            for k_ in ("T", "c", "n", "axes", "radii", "size"):
                if k_ in b0 and not np.array_equal(b0[k_], s0[k_]):
                    viol.append({"key": dict(key0, kind="caller-array-modified", where="constructor argument " + k_), "err": float(np.abs(b0[k_] - s0[k_]).max()),
                                 "msg": "%s.update_pose (%s pose, step %d) overwrote the array the caller passed to the constructor (%s changed by %.3g)" % (
                                     name, how, i, k_, float(np.abs(b0[k_] - s0[k_]).max()))})
                    b0[k_][...] = s0[k_]
            try:
                osib = O.oracle(shared_snap)
                es = max(float(np.abs(np.asarray(sib.center(), float) - osib.center()).max()),
                         float(np.abs(np.asarray(sib.aabb(), float) - np.asarray(gen.build(shared_snap).aabb(), float)).max())) / L
                if es > TOL:
                    viol.append({"key": dict(key0, kind="sibling-moved", where="center/aabb"), "err": es,
                                 "msg": "a second %s built from the same start arrays moved by %.3g*L when the first one was given a new pose (%s pose, step %d)" % (name, es, how, i)})
                    sib = gen.build(shared, copy=False)
            except Exception as e:  # noqa: BLE001
                viol.append({"key": dict(key0, kind="exception", where="sibling", exc=type(e).__name__), "err": None, "msg": "sibling query raised %s" % type(e).__name__})
        if how == "stack":
            bad = [j for j in range(n) if not np.array_equal(stack[j], poses[j])]
            if bad:
                viol.append({"key": dict(key0, kind="caller-array-modified", where="pose stack"), "err": None,
                             "msg": "%s.update_pose changed the caller's pose stack (matrices %s)" % (name, bad[:4])})
                stack[:] = np.array(poses)
        frames = [Texp[:3, :3]]
        for d in gen.mesh_vertex_dirs(espec)[:1] + gen.rand_dirs(rng, 6, frames):
            if kind == "mesh":
                cmp("support_function(projection)", lambda c, d=d: np.array([float(np.dot(c.support_function(d), d)) / np.linalg.norm(d)]))
            else:
                cmp("support_function", lambda c, d=d: c.support_function(d))
        cmp("aabb", lambda c: c.aabb())
        cmp("center", lambda c: c.center())
        cmp("first_vertex", lambda c: c.first_vertex())
        cmp("collider2origin", lambda c: c.collider2origin())
        cmp("gjk.distance", lambda c: np.array([gjk.gjk(c, probe)[0]]), mode="loose")
        cmp("gjk_intersection", lambda c: gjk.gjk_intersection(c, probe), mode="bool") if _clear(o, pspec, L) else None
        cmp("mpr_intersection", lambda c: mpr.mpr_intersection(c, probe), mode="bool") if _clear(o, pspec, L) else None
        cmp("gjk.distance(reversed)", lambda c: np.array([gjk.gjk(probe, c)[0]]), mode="loose")
    return {"cls": "%s|n=%d" % (name, min(n, 3)), "nontrivial": n >= 2, "sig": repr((O.describe(spec), [p.tolist() for p in poses[:2]])),
            "events": ev, "worst": worst, "viol": viol,
            "sample": {"spec": O.describe(spec), "n_poses": n, "how": hist, "first_pose": poses[0].tolist()}}


def _clear(o, pspec, L):
    """booleans are only compared away from grazing contact (both objects answer the same question, but a
    decision within rounding of the boundary may legitimately flip with the cached mesh vertex)"""
    from .. import refsolve
    r = refsolve.ref_distance(o, O.oracle(pspec), L, eps_rel=1e-6, max_iter=60)
    if r["lb"] > 1e-6 * L:
        return True
    if r["ub"] <= 1e-9 * L:
        from .. import penscene
        return penscene.common_ball_lower_bound(o, O.oracle(pspec), 0.5 * (r["a"] + r["b"]), iters=60) > 2e-6 * L
    return False
