"""C17 - tetrahedral mesh factories partition the shape with valid potentials.

Monitors on (vertices, tetrahedra, potentials) of the six make_tetrahedral_*
factories and RigidBody.make_*: positive volumes, sum of volumes == volume of
the convex hull (exact product for box/cube), conforming face pairing (every
interior face shared by exactly two tetrahedra, boundary faces on the hull),
point-coverage sampling (each interior sample point in exactly one
tetrahedron), vertices inside the analytic shape, potentials in {0, inradius}
with 0 exactly on the boundary, helper functions against direct numpy
computations, and the centre of mass through an express_in() history.
"""
import math

import numpy as np
from scipy.spatial import ConvexHull

from .. import gen, oracles as O

ID = "C17"
PROPNUM = 17
LEVEL = "exploration"
NEED_STUB = True
MODES = {"quick": ["jit"] * 16, "thorough": ["jit"] * 16}
CASE_TIMEOUT_S = 300
KINDS6 = ["sphere", "ellipsoid", "cube", "box", "cylinder", "capsule"]
RULE = ("one case = one factory call (six factories in turn): sizes over [1e-2,1e2] (unit / log-uniform / round values), class "
        "boundaries of the cylinder (length = 2r exactly, +-1 ulp, +-1e-13 relative: long/medium/short), boxes with 2 or 3 equal "
        "sides (+-ulp), cubes (duplicate medial vertices), subdivision orders 0-3 (4 in thorough), resolution hints from 10r to "
        "r/30; every third case goes through RigidBody.make_* at a random pose and continues with the history com -> "
        "express_in(T) -> com. non-trivial = every case; distinct = distinct parameter tuples")
ASSUMPTIONS = ["analytic shapes: sphere/ellipsoid/box/cylinder/capsule oracles of verif/oracles.py",
               "volume of the convex hull from Qhull; face pairing keyed by vertex coordinates (duplicate vertices are merged)"]
MIN_EVENTS = {"meshes": 250, "tetrahedra": 20000, "coverage_points": 20000, "rigid_body_histories": 60}


def cases(tier):
    return 330 if tier == "quick" else 5000


def _vol6(P):
    e = P[:, 1:] - P[:, :1]
    return np.einsum("ij,ij->i", np.cross(e[:, 0], e[:, 1]), e[:, 2])


def _params(rng, kind, tier):
    s = lambda: gen.size(rng, 1e-2, 1e2)  # noqa: E731
    if kind == "sphere":
        return {"radius": s(), "order": int(rng.integers(0, 5 if tier == "thorough" else 4))}
    if kind == "ellipsoid":
        return {"radii": np.array([s(), s(), s()]), "order": int(rng.integers(0, 5 if tier == "thorough" else 4))}
    if kind == "cube":
        return {"size": s()}
    if kind == "box":
        a = s()
        m = str(rng.choice(["random", "two-equal", "three-equal", "two-equal-ulp"]))
        if m == "random":
            size = np.array([a, s(), s()])
        elif m == "two-equal":
            size = np.array([a, a, s()])[rng.permutation(3)]
        elif m == "three-equal":
            size = np.array([a, a, a])
        else:
            size = np.array([a, np.nextafter(a, 1e9), s()])[rng.permutation(3)]
        return {"size": size}
    r = s()
    fine = [1.0 / 10, 1.0 / 30] if tier == "thorough" else [1.0 / 8]
    hint = r * float(rng.choice([10.0, 3.0, 1.0, 0.5, 0.2] + fine))
    if kind == "cylinder":
        m = str(rng.choice(["long", "short", "medium", "medium+ulp", "medium-ulp", "medium+1e-13", "medium-1e-13", "random"]))
        ln = {"long": r * rng.uniform(2.1, 20), "short": r * rng.uniform(0.05, 1.9), "medium": 2 * r,
              "medium+ulp": np.nextafter(2 * r, 1e9), "medium-ulp": np.nextafter(2 * r, 0.0),
              "medium+1e-13": 2 * r * (1 + 1e-13), "medium-1e-13": 2 * r * (1 - 1e-13), "random": s()}[m]
        ln = float(min(1e2, max(1e-2, ln)))
        return {"radius": r, "length": ln, "resolution_hint": hint, "_class": m}
    return {"radius": r, "height": float(min(1e2, max(1e-2, s()))), "resolution_hint": hint}


def _oracle(kind, p):
    I = np.eye(4)
    if kind == "sphere":
        return O.OSphere(np.zeros(3), p["radius"]), p["radius"]
    if kind == "ellipsoid":
        return O.OEllipsoid(I, p["radii"]), float(min(p["radii"]))
    if kind == "cube":
        return O.OBox(I, np.ones(3) * p["size"]), 0.5 * p["size"]
    if kind == "box":
        return O.OBox(I, p["size"]), 0.5 * float(min(p["size"]))
    if kind == "cylinder":
        return O.OCylinder(I, p["radius"], p["length"]), min(p["radius"], 0.5 * p["length"])
    return O.OCapsule(I, p["radius"], p["height"]), p["radius"]


def run_case(rng, idx, tier):
    from distance3d import hydroelastic_contact as hc
    kind = KINDS6[idx % 6]
    p = _params(rng, kind, tier)
    args = {k: v for k, v in p.items() if not k.startswith("_")}
    viol = []; worst = {}
    ev = {"meshes": 0, "tetrahedra": 0, "coverage_points": 0, "rigid_body_histories": 0}
    key0 = {"factory": kind}
    if kind == "cylinder":
        key0["cylinder_class"] = p["_class"]
    desc = {k: (v.tolist() if isinstance(v, np.ndarray) else v) for k, v in p.items()}
    rec = {"cls": "%s%s" % (kind, "|" + p["_class"] if kind == "cylinder" else ""), "nontrivial": True, "sig": repr((kind, desc)),
           "sample": {"factory": "make_tetrahedral_" + kind, "args": desc}}

    def bad(what, err, msg):
        viol.append({"key": dict(key0, kind=what), "err": None if err is None else float(err),
                     "msg": "make_tetrahedral_%s(%s): %s" % (kind, desc, msg)})

    try:
        from distance3d.hydroelastic_contact import _tetra_mesh_creation as TM
        V, T, pot = getattr(TM, "make_tetrahedral_" + kind)(**args)
    except Exception as e:  # noqa: BLE001
        bad("exception", None, "raised %s: %s" % (type(e).__name__, str(e)[:200]))
        viol[-1]["key"]["exc"] = type(e).__name__
        rec.update(events=ev, viol=viol, worst=worst)
        return rec
    V = np.asarray(V, float); T = np.asarray(T); pot = np.asarray(pot, float)
    ev["meshes"] += 1; ev["tetrahedra"] += len(T)
    if V.ndim != 2 or V.shape[1] != 3 or T.ndim != 2 or T.shape[1] != 4 or pot.shape != (len(V),) or not np.all(np.isfinite(V)) \
            or T.min() < 0 or T.max() >= len(V):
        bad("malformed-output", None, "shapes %s %s %s" % (V.shape, T.shape, pot.shape))
        rec.update(events=ev, viol=viol, worst=worst)
        return rec
    orc, inradius = _oracle(kind, p)
    L = max(1.0, orc.scale())
    P = V[T]
    v6 = _vol6(P)
    vols = np.abs(v6) / 6.0
    scale3 = orc.scale() ** 3
    # 1. positive volume
    # strictly positive volume (near the long/medium/short class boundaries of the cylinder the medial axis may be
    # ~1e-13 long: tiny but valid tetrahedra, so no relative threshold here)
    if np.any(vols <= 0.0):
        bad("degenerate-tetrahedron", float(np.min(vols) / scale3), "%d tetrahedra have zero volume" % int(np.sum(vols <= 0.0)))
    # 2. volumes sum to the hull volume
    try:
        hull = ConvexHull(V)
        rel = abs(float(vols.sum()) - hull.volume) / hull.volume
        worst["volume sum vs hull (rel)"] = rel
        if rel > 1e-9:
            bad("volume-sum-differs-from-hull", rel, "sum of tetrahedron volumes %.12g, convex hull volume %.12g" % (vols.sum(), hull.volume))
    except Exception as e:  # noqa: BLE001
        hull = None
        bad("hull-failed", None, "Qhull failed on the vertices: %s" % type(e).__name__)
    if kind in ("cube", "box"):
        exact = float(np.prod(p["size"])) if kind == "box" else p["size"] ** 3
        rel = abs(float(vols.sum()) - exact) / exact
        worst["box volume (rel)"] = rel
        if rel > 1e-9:
            bad("box-tiling-not-exact", rel, "sum of volumes %.12g, box volume %.12g" % (vols.sum(), exact))
    # 3. unused vertices
    used = np.zeros(len(V), bool); used[T.ravel()] = True
    if not used.all():
        bad("unused-vertex", float(np.sum(~used)), "%d vertices are not used by any tetrahedron" % int(np.sum(~used)))
    # 4. conforming face pairing (vertices merged by coordinates)
    uniq, ids = np.unique(V, axis=0, return_inverse=True)       # exactly equal vertices are one vertex
    ids = np.asarray(ids).ravel()
    a = ids[T]
    F = np.concatenate([a[:, [0, 1, 2]], a[:, [0, 1, 3]], a[:, [0, 2, 3]], a[:, [1, 2, 3]]], axis=0)
    F.sort(axis=1)
    fu, cnt = np.unique(F, axis=0, return_counts=True)
    over = int(np.sum(cnt > 2))
    if over:
        bad("face-shared-by-more-than-two", float(over), "%d faces are shared by more than two tetrahedra" % over)
    if hull is not None:
        eq = hull.equations
        bf = fu[cnt == 1]
        if len(bf):
            tri = uniq[bf]                                           # (m,3,3)
            if len(tri) * len(eq) > 2e8:
                # fine meshes of the thorough tier (70 000 boundary faces x 70 000 hull facets): judge a random sample
                tri = tri[rng.permutation(len(tri))[:max(200, int(2e8 // len(eq)))]]
                ev["boundary_faces_sampled"] = ev.get("boundary_faces_sampled", 0) + 1
            nb = 0
            step = max(1, int(1e7 // (len(eq) * 3)))
            for i0 in range(0, len(tri), step):                      # chunks bound the (m, facets, 3) work array
                d = np.einsum("fk,mjk->mfj", eq[:, :3], tri[i0:i0 + step]) + eq[None, :, 3, None]
                on_hull = np.any(np.all(np.abs(d) <= 1e-9 * L, axis=2), axis=1)
                nb += int(np.sum(~on_hull))
            if nb:
                bad("unpaired-interior-face", float(nb), "%d faces belong to one tetrahedron only but are not on the hull boundary (gap / overlap)" % nb)
    # 5. coverage sampling
    if hull is not None and len(T) <= 40000:
        lo, hi = V.min(axis=0), V.max(axis=0)
        pts = rng.uniform(lo, hi, size=(300, 3))
        inside = np.all(eq[:, :3] @ pts.T + eq[:, 3:4] <= -1e-6 * L, axis=0)
        pts = pts[inside][:80]
        A = np.concatenate([P, np.ones((len(P), 4, 1))], axis=2)          # (n,4,4)
        Ainv = np.linalg.inv(np.transpose(A, (0, 2, 1)))
        multi = zero = 0
        for x in pts:
            bc = Ainv @ np.append(x, 1.0)
            strict = np.all(bc > 1e-9, axis=1)
            loose = np.all(bc > -1e-9, axis=1)
            if loose.sum() == 0:
                zero += 1
            elif strict.sum() > 1:
                multi += 1
        ev["coverage_points"] += len(pts)
        if zero or multi:
            bad("coverage", float(zero + multi), "%d of %d interior sample points are in no tetrahedron, %d in more than one" % (zero, len(pts), multi))
    # 6. vertices inside the analytic shape, potentials
    out = max(orc.dist(v) for v in V) / L
    worst["vertex outside analytic shape /L"] = out
    if out > 1e-9:
        bad("vertex-outside-shape", out, "a vertex lies %.3g*L outside the analytic shape" % out)
    okp = np.isclose(pot, 0.0, atol=0) | np.isclose(pot, inradius, rtol=1e-12, atol=0)
    if not okp.all():
        bad("potential-value", float(np.abs(pot[~okp]).max()), "potentials %s are neither 0 nor the inradius %.12g" % (np.unique(pot[~okp])[:4], inradius))
    for v, ph in zip(V, pot):
        depth = orc.depth(v)
        if depth <= 1e-9 * L and ph != 0.0:
            bad("boundary-vertex-with-potential", ph, "vertex %s on the surface has potential %.6g" % (v.tolist(), ph)); break
        if depth > 1e-6 * L and ph == 0.0 and hull is not None and np.min(-(eq[:, :3] @ v + eq[:, 3])) > 1e-6 * L:
            bad("interior-vertex-without-potential", depth / L, "vertex %s is %.3g inside but has potential 0" % (v.tolist(), depth)); break
    # 7. helpers vs direct computation
    try:
        hv = np.asarray(hc.tetrahedral_mesh_volumes(P), float)
        ha = np.asarray(hc.tetrahedral_mesh_aabbs(P), float)
        hcm = np.asarray(hc.center_of_mass_tetrahedral_mesh(P), float)
        if not np.allclose(hv, vols, rtol=1e-9, atol=1e-14 * scale3):
            bad("helper-volumes", float(np.abs(hv - vols).max() / scale3), "tetrahedral_mesh_volumes differs from |det|/6")
        da = np.stack([P.min(axis=1), P.max(axis=1)], axis=2)
        if ha.shape != da.shape or not np.array_equal(ha, da):
            bad("helper-aabbs", None, "tetrahedral_mesh_aabbs differs from min/max of the vertices")
        dcm = (vols[:, None] * P.mean(axis=1)).sum(axis=0) / vols.sum()
        if np.abs(hcm - dcm).max() > 1e-9 * L:
            bad("helper-com", float(np.abs(hcm - dcm).max() / L), "center_of_mass_tetrahedral_mesh %s vs direct %s" % (hcm.tolist(), dcm.tolist()))
    except Exception as e:  # noqa: BLE001
        bad("exception", None, "mesh helper raised %s: %s" % (type(e).__name__, str(e)[:160]))
        viol[-1]["key"]["exc"] = type(e).__name__
    # 8. RigidBody.make_* equals the factory; com through an express_in history
    if idx % 3 == 0:
        try:
            T0 = np.ascontiguousarray(O.pose(gen.rand_rot(rng), gen.center(rng, far_ok=False)))
            if kind == "sphere":
                rb = hc.RigidBody.make_sphere(T0[:3, 3].copy(), p["radius"], p["order"])
            elif kind == "ellipsoid":
                rb = hc.RigidBody.make_ellipsoid(T0, p["radii"], p["order"])
            elif kind == "cube":
                rb = hc.RigidBody.make_cube(T0, p["size"])
            elif kind == "box":
                rb = hc.RigidBody.make_box(T0, p["size"])
            elif kind == "cylinder":
                rb = hc.RigidBody.make_cylinder(T0, p["radius"], p["length"], p["resolution_hint"])
            else:
                rb = hc.RigidBody.make_capsule(T0, p["radius"], p["height"], p["resolution_hint"])
            if not (np.array_equal(rb.vertices_, V) and np.array_equal(rb.tetrahedra_, T) and np.array_equal(rb.potentials_, pot)):
                bad("rigid-body-differs-from-factory", None, "RigidBody.make_%s does not hold the factory's mesh" % kind)
            c0 = np.asarray(rb.com, float)
            d0 = (vols[:, None] * P.mean(axis=1)).sum(axis=0) / vols.sum()
            if np.abs(c0 - d0).max() > 1e-9 * L:
                bad("rigid-body-com", float(np.abs(c0 - d0).max() / L), "RigidBody.com differs from the volume weighted centroid")
            T2 = np.ascontiguousarray(O.pose(gen.rand_rot(rng), gen.center(rng, far_ok=False)))
            rb.express_in(T2)
            P2 = rb.vertices_[rb.tetrahedra_]
            v2 = np.abs(_vol6(P2)) / 6.0
            d2 = (v2[:, None] * P2.mean(axis=1)).sum(axis=0) / v2.sum()
            c2 = np.asarray(rb.com, float)
            L2 = max(L, float(np.abs(P2).max()))
            ev["rigid_body_histories"] += 1
            if np.abs(c2 - d2).max() > 1e-9 * L2:
                bad("rigid-body-com-stale", float(np.abs(c2 - d2).max() / L2), "RigidBody.com after express_in differs from the centroid of the re-expressed mesh")
            if not np.array_equal(np.asarray(rb.tetrahedra_points), P2):
                bad("rigid-body-tetrahedra-points-stale", None, "RigidBody.tetrahedra_points after express_in is not vertices_[tetrahedra_]")
            W = rb.vertices_ @ T2[:3, :3].T + T2[:3, 3]
            if kind == "sphere":
                W0 = V + T0[:3, 3]                                   # make_sphere takes a centre only
            else:
                W0 = V @ T0[:3, :3].T + T0[:3, 3]
            if np.abs(W - W0).max() > 1e-9 * max(L2, float(np.abs(W0).max())):
                bad("express_in-moves-the-body", float(np.abs(W - W0).max()), "express_in changed the world position of the vertices")
        except Exception as e:  # noqa: BLE001
            bad("exception", None, "RigidBody.make_%s / express_in raised %s: %s" % (kind, type(e).__name__, str(e)[:160]))
            viol[-1]["key"]["exc"] = type(e).__name__
    rec.update(events=ev, viol=viol, worst=worst)
    return rec
