"""C19 - narrow-phase queries always terminate with finite results on valid input.

Liveness restated as bounded progress: at most 1000 support evaluations per
query. The bound is enforced by counting proxies (which raise at 1001) and,
for the type-dispatching Nesterov variants, by sys.monitoring call counters
and the returned iteration counters. A wall-clock watchdog exists as a second
line (stuck inside compiled code), a hang there is reported as violation.
"""
import numpy as np

from .. import gen, monitors, oracles as O, pairs

ID = "C19"
PROPNUM = 19
LEVEL = "exploration"
LIMIT = 1000
MODES = {"quick": ["jit"] * 12 + ["bounds"] * 4, "thorough": ["jit"] * 12 + ["bounds"] * 4}
CASE_TIMEOUT_S = 120
TIMEOUT_IS_VIOLATION = True
HANG_S = 400
PRIM = ("sphere", "capsule", "box", "ellipsoid", "cylinder")
SMOOTH = ("sphere", "ellipsoid", "capsule", "cylinder", "cone", "disk", "ellipse")
CLASS_P = {"gap": .1, "touch": .14, "overlap": .1, "deep": .08, "same": .08, "copy": .08, "nested": .1, "lattice": .14,
           "parallel": .05, "free": .02, "far": .04, "coplanar": .05, "feature": .12}
RULE = ("one case = one collider pair from the hostile classes (same object twice, equal copy, nested, lattice, touching, "
        "coplanar, far; 20% needle/flat aspect ratios 1e2..1e4; 30% of vertex hulls zero-volume: single vertex, segment, planar "
        "polygon) on which EVERY narrow-phase entry point is executed: gjk_distance_jolt, gjk_intersection_jolt, "
        "gjk_intersection_libccd, gjk_distance_original, mpr_intersection, mpr_penetration, epa (on overlap), "
        "gjk_nesterov_accelerated x{plain,accelerated}, gjk_nesterov_accelerated_primitives x{plain,accelerated} (supported "
        "types), plus the *_iterations helpers, and every 8th case self_collision.detect/detect_any on a BVH of 3-6 such "
        "colliders. Recorded per call: support evaluations (proxy / sys.monitoring / returned counters), finiteness of every "
        "returned number, exception type. non-trivial = class is not free/far; distinct = distinct scene hashes")
ASSUMPTIONS = ["a support evaluation = one call of collider.support_function (proxy) or of the Nesterov module's pair support function",
               "EPA AssertionError (polytope capacity) is accepted only when a smooth shape is involved"]
MIN_EVENTS = {"calls": 20000, "support_evaluations": 200000, "epa_calls": 300, "self_collision_runs": 100, "cap_stress_calls": 4000}


def cases(tier):
    return 3000 if tier == "quick" else 100000


def _finite_all(res):
    from distance3d.utils import MAX_FLOAT
    out = []

    def walk(x):
        if x is None or isinstance(x, (bool, np.bool_, str)):
            return
        if isinstance(x, (tuple, list)):
            for y in x:
                walk(y)
            return
        if isinstance(x, dict):
            for y in x.values():
                walk(y)
            return
        try:
            a = np.asarray(x, dtype=float)
        except Exception:  # noqa: BLE001
            return
        out.append(a)
    walk(res)
    for a in out:
        if not np.all(np.isfinite(a)):
            return False
    return True


def run_case(rng, idx, tier):
    from distance3d import gjk, mpr, epa as epa_mod
    from distance3d.gjk import _gjk_nesterov_accelerated as NA, _gjk_jolt as J, _gjk_original as GO, _gjk_nesterov_accelerated_primitives as NP
    kA = O.KINDS[idx % 10]; kB = O.KINDS[(idx // 10) % 10]
    if idx % 7 == 3:
        # the small end of the size domain (features 0.01 .. 0.05, flat faces and needle tips) across a gap of 1e-4 .. 2e-2:
        # the degenerate exits of the boolean tests (repeated support point, flat tetrahedron) are taken here
        from .. import gen
        if rng.random() < 0.5:
            sA, sB, cls, truth = pairs.make_pair(rng, kA, kB, class_p={"gap": 1.0}, smin=1e-2, smax=5e-2, needle_p=0.3, degenerate_p=0.3)
            sB, _u, _pa, _pb = gen.place_gap(rng, sA, sB, gen.logu(rng, 1e-4, 2e-2), truth.get("u"))
            cls = cls.replace("gap", "small-gap", 1)
        else:
            # the same, exactly axis-aligned: lattice shapes (or a vertex / segment / planar polygon as hull) scaled to
            # 1e-2, a needle now and then, B in front of A along a coordinate axis
            def lat(kind):
                if kind == "hull" and rng.random() < 0.5:
                    V = {"v": np.zeros((1, 3)), "s": np.array([[0.0, 0, 0], [1.0, 0, 0]]),
                         "q": np.array([[0.0, 0, 0], [1.0, 0, 0], [0, 1.0, 0], [1.0, 1.0, 0]])}[str(rng.choice(["v", "s", "q"]))]
                    sp = {"kind": "hull", "V": np.ascontiguousarray(V[:, rng.permutation(3)] * float(rng.choice([0.01, 0.02, 1.0]))), "sub": "degenerate:aligned"}
                else:
                    sp = O.scaled(pairs.lattice_spec(rng, kind), 0.01)
                    if sp["kind"] == "box" and rng.random() < 0.3:
                        sz = np.array(sp["size"], float); sz[int(rng.integers(3))] = 10.0; sp = dict(sp, size=sz)
                return sp
            sA, sB = lat(kA), lat(kB)
            u = np.zeros(3); u[int(rng.integers(3))] = float(rng.choice([-1.0, 1.0]))
            oA0, oB0 = O.oracle(sA), O.oracle(sB)
            g = float(rng.choice([0.001, 0.0025, 0.005, 0.01]))
            pA = oA0.sup(u); pB = oB0.sup(-u)
            lateral = (pA - pB) - ((pA - pB) @ u) * u if rng.random() < 0.6 else np.zeros(3)
            sB = O.translated(sB, u * (oA0.h(u) + g + oB0.h(-u)) + lateral)
            cls = "small-gap-aligned"; truth = {"dist": None, "common": None, "depth": None}
    else:
        sA, sB, cls, truth = pairs.make_pair(rng, kA, kB, class_p=CLASS_P, needle_p=0.2, degenerate_p=0.3)
    A, B = pairs.build_pair(sA, sB)
    names = (O.name(sA), O.name(sB))
    viol = []; worst = {}
    ev = {"calls": 0, "support_evaluations": 0, "epa_calls": 0, "self_collision_runs": 0, "epa_capacity_asserts": 0}
    smooth = O.base_kind(sA) in SMOOTH or O.base_kind(sB) in SMOOTH or sA["kind"] == "margin" or sB["kind"] == "margin"
    both_prim = sA["kind"] in PRIM and sB["kind"] in PRIM
    key0 = {"cls": cls.split("+")[0], "needle": "needle" in cls, "degenerate": "degenerate" in cls}

    def record(name, n, res=None, exc=None, extra=None):
        ev["calls"] += 1
        ev["support_evaluations"] += n
        worst["support_evals:" + name] = max(worst.get("support_evals:" + name, 0), n)
        k = dict(key0, fn=name)
        if extra:
            k.update(extra)
        if exc is not None:
            if isinstance(exc, monitors.SupportBudgetExceeded):
                viol.append({"key": dict(k, kind="support-budget-exceeded"), "err": float(n),
                             "msg": "%s(%s,%s) [%s] used more than %d support evaluations" % (name, names[0], names[1], cls, LIMIT)})
            elif isinstance(exc, AssertionError) and name == "epa" and smooth:
                ev["epa_capacity_asserts"] += 1
            else:
                viol.append({"key": dict(k, kind="exception", exc=type(exc).__name__, smooth=smooth,
                                         pair="%s|%s" % (O.base_kind(sA), O.base_kind(sB))), "err": None,
                             "msg": "%s(%s,%s) [%s] raised %s: %s" % (name, names[0], names[1], cls, type(exc).__name__, str(exc)[:200])})
            return
        if n > LIMIT:
            viol.append({"key": dict(k, kind="support-budget-exceeded"), "err": float(n),
                         "msg": "%s used %d support evaluations" % (name, n)})
        if not _finite_all(res):
            if name == "mpr_penetration" and isinstance(res, (tuple, list)) and len(res) == 4 and res[1] is not None:
                # mechanism predicate for K23: touching contact (depth 0 up to rounding) with a NaN contact position only
                k["touching_depth"] = bool(abs(float(res[1])) <= 1e-9)
                k["only_position_nan"] = bool(np.all(np.isfinite(np.asarray(res[2], float))) and np.isfinite(res[1]))
            viol.append({"key": dict(k, kind="non-finite-output", pair="%s|%s" % (O.base_kind(sA), O.base_kind(sB))), "err": None,
                         "msg": "%s(%s,%s) [%s] returned a non-finite value: %r" % (name, names[0], names[1], cls, res)[:400]})

    last_proxies = [None, None]

    def with_proxies(name, f, fields=None, fresh=False):
        if fresh:
            # mesh colliders cache their last support vertex, so iteration paths depend on history (ties):
            # comparisons of step counts are made between two freshly built, identical scenes
            A2, B2 = pairs.build_pair(sA, sB)
        else:
            A2, B2 = A, B
        pa = monitors.Counted(A2, LIMIT, record=True); pb = pa if B2 is A2 else monitors.Counted(B2, LIMIT, record=True)
        last_proxies[:] = [pa, pb]
        try:
            r = f(pa, pb)
            n = pa.n + (0 if pb is pa else pb.n)
            record(name, n, r if fields is None or r is None else [r[i] for i in fields])
            return r, n
        except Exception as e:  # noqa: BLE001
            record(name, pa.n + (0 if pb is pa else pb.n), exc=e)
            return None, None

    # the returned simplex arrays come from np.empty and carry unused (garbage) rows: only the documented
    # scalar/point outputs are judged for finiteness
    r_jolt, n_jolt = with_proxies("gjk_distance_jolt", lambda a, b: gjk.gjk_distance_jolt(a, b), fields=(0, 1, 2), fresh=True)
    jolt_proxies = list(last_proxies)
    with_proxies("gjk_intersection_jolt", lambda a, b: gjk.gjk_intersection_jolt(a, b))
    with_proxies("gjk_intersection_libccd", lambda a, b: gjk.gjk_intersection_libccd(a, b))
    r_orig, n_orig = with_proxies("gjk_distance_original", lambda a, b: gjk.gjk_distance_original(a, b), fields=(0, 1, 2, 4), fresh=True)
    with_proxies("mpr_intersection", lambda a, b: mpr.mpr_intersection(a, b))
    with_proxies("mpr_penetration", lambda a, b: mpr.mpr_penetration(a, b))
    # iteration helpers must agree with the main entry points' step counts
    it, _ = with_proxies("gjk_distance_jolt_iterations", lambda a, b: J.gjk_distance_jolt_iterations(a, b), fresh=True)
    if it is not None and n_jolt is not None and 2 * it != n_jolt and B is not A:
        viol.append({"key": dict(key0, fn="gjk_distance_jolt_iterations", kind="iteration-count-mismatch"), "err": None,
                     "msg": "gjk_distance_jolt_iterations=%s but gjk_distance_jolt made %s support evaluations" % (it, n_jolt)})
    if r_orig is not None:
        it2, _ = with_proxies("gjk_distance_iterations(original)", lambda a, b: GO.gjk_distance_iterations(a, b), fresh=True)
        if it2 is not None and it2 != r_orig[4]:
            viol.append({"key": dict(key0, fn="gjk_distance_iterations", kind="iteration-count-mismatch"), "err": None,
                         "msg": "original: iterations helper %s != tuple field %s" % (it2, r_orig[4])})
    # EPA on overlap
    if r_jolt is not None and r_jolt[0] == 0.0 and r_jolt[3] is not None:
        simplex = np.array(r_jolt[3], dtype=float)
        if np.all(np.isfinite(simplex)):
            ev["epa_calls"] += 1
            key0["simplex_degenerate"] = not monitors.simplex_is_tetrahedron(simplex, jolt_proxies[0], jolt_proxies[1])
            with_proxies("epa", lambda a, b: epa_mod.epa(simplex, a, b), fields=(0, 2))
            key0.pop("simplex_degenerate")
    # Nesterov variants: raw colliders (type dispatch), sys.monitoring counter
    for acc in (False, True):
        nm = "gjk_nesterov_accelerated[acc=%s]" % acc
        try:
            with monitors.CallCounter([NA.support_function], limit=LIMIT) as cc:
                r = gjk.gjk_nesterov_accelerated(A, B, use_nesterov_acceleration=acc)
            n = 2 * cc.count
            record(nm, n, (r[0], r[1], r[3]), extra={"acc": acc})
            if r[3] > 128:
                viol.append({"key": dict(key0, fn=nm, kind="iteration-counter-above-cap"), "err": float(r[3]), "msg": "%s iterations %s" % (nm, r[3])})
        except Exception as e:  # noqa: BLE001
            record(nm, 0, exc=e, extra={"acc": acc})
        if both_prim:
            nm = "gjk_nesterov_accelerated_primitives[acc=%s]" % acc
            try:
                r = gjk.gjk_nesterov_accelerated_primitives(A, B, use_nesterov_acceleration=acc)
                record(nm, 2 * int(r[3]) + 2, (r[0], r[1], r[3]), extra={"acc": acc})
            except Exception as e:  # noqa: BLE001
                record(nm, 0, exc=e, extra={"acc": acc})
    if both_prim:
        try:
            i1 = NP.gjk_nesterov_accelerated_primitives_iterations(A, B)
            i2 = gjk.gjk_nesterov_accelerated_primitives(A, B)[3]
            ev["calls"] += 1
            if i1 != i2:
                viol.append({"key": dict(key0, fn="primitives_iterations", kind="iteration-count-mismatch"), "err": None,
                             "msg": "primitives iterations helper %s != tuple field %s" % (i1, i2)})
        except Exception:  # noqa: BLE001
            pass   # already recorded above
    try:
        A2, B2 = pairs.build_pair(sA, sB)
        i1 = NA.gjk_nesterov_accelerated_iterations(A2, B2)
        A2, B2 = pairs.build_pair(sA, sB)
        i2 = gjk.gjk_nesterov_accelerated(A2, B2)[3]
        ev["calls"] += 1
        if i1 != i2:
            viol.append({"key": dict(key0, fn="nesterov_iterations", kind="iteration-count-mismatch"), "err": None,
                         "msg": "nesterov iterations helper %s != tuple field %s" % (i1, i2)})
    except Exception:  # noqa: BLE001
        pass
    # ---- iteration-cap stress: the documented caps (max_iterations / max_iter / max_interations) are the
    # mechanism that bounds the capped loops; run them with a tiny cap and attribute the work to phases
    if idx % 2 == 0:
        _cap_stress(A, B, sA, sB, r_jolt, ev, viol, key0, names, cls)
    if idx % 25 == 7:
        _epa_raised_caps(rng, ev, viol)
    # self collision on a small BVH of proxied colliders
    if idx % 8 == 0:
        _self_collision(rng, sA, sB, ev, viol, worst, key0)
    return {"cls": "%s|%s|%s" % (names[0], names[1], cls), "nontrivial": cls.split("+")[0] not in ("free", "far"),
            "sig": repr(pairs.describe(sA, sB, cls, truth)), "events": ev, "worst": worst, "viol": viol,
            "sample": pairs.describe(sA, sB, cls, truth)}


def _self_collision(rng, sA, sB, ev, viol, worst, key0):
    from pytransform3d.transform_manager import TransformManager
    from distance3d.broad_phase import BoundingVolumeHierarchy
    from distance3d import self_collision
    tm = TransformManager(check=False)
    bvh = BoundingVolumeHierarchy(tm, "base")
    specs = [sA, sB if sB is not sA else pairs._copy_spec(sA)]
    oA = O.oracle(sA)
    for _ in range(int(rng.integers(1, 5))):
        sp = gen.rand_spec(rng, scale=oA.scale(), far_ok=False)
        sp = O.translated(sp, oA.center() - O.oracle(sp).center() + rng.normal(size=3) * oA.scale())
        specs.append(sp)
    proxies = []
    try:
        for i, sp in enumerate(specs):
            col = monitors.Counted(gen.build(sp), LIMIT * len(specs))
            proxies.append(col)
            bvh.add_collider("f%d" % i, col)
            bvh.self_collision_whitelists_["f%d" % i] = []
        r1 = self_collision.detect(bvh)
        n1 = sum(p.n for p in proxies)
        r2 = self_collision.detect_any(bvh)
        n2 = sum(p.n for p in proxies) - n1
        ev["self_collision_runs"] += 1
        ev["calls"] += 2
        ev["support_evaluations"] += n1 + n2
        pairs_max = len(specs) * (len(specs) - 1)
        worst["support_evals:self_collision.detect"] = n1
        if n1 > LIMIT * pairs_max or n2 > LIMIT * pairs_max:
            viol.append({"key": dict(key0, fn="self_collision", kind="support-budget-exceeded"), "err": float(max(n1, n2)),
                         "msg": "self_collision.detect used %d support evaluations for %d colliders" % (n1, len(specs))})
        if not (isinstance(r1, dict) and all(isinstance(v, (bool, np.bool_)) for v in r1.values()) and isinstance(r2, (bool, np.bool_))):
            viol.append({"key": dict(key0, fn="self_collision", kind="bad-output"), "err": None, "msg": "detect returned %r / %r" % (r1, r2)})
    except Exception as e:  # noqa: BLE001
        viol.append({"key": dict(key0, fn="self_collision", kind="exception", exc=type(e).__name__), "err": None,
                     "msg": "self_collision.detect on %d colliders raised %s: %s" % (len(specs), type(e).__name__, str(e)[:200])})


def _epa_raised_caps(rng, ev, viol):
    """EPA with its documented limits raised (max_iter, max_faces) on a symmetric smooth pair: two round shapes whose
    centres are offset exactly along a coordinate axis, start tetrahedron from the support differences in +x, +y, +z and
    (-1,-1,-1). Many faces become visible at once there (the loose-edge buffer fills). The call has to return or raise
    the documented capacity assertion within the case's CPU budget."""
    from distance3d import epa as epa_mod
    kinds = ["sphere", "cylinder", "capsule", "ellipsoid"]

    def make(c):
        k = str(rng.choice(kinds)); T = O.pose(np.eye(3), c)
        if k == "sphere":
            return {"kind": k, "c": np.array(c, float), "r": 0.5}
        if k == "cylinder":
            return {"kind": k, "T": T, "r": 0.5, "l": 1.0}
        if k == "capsule":
            return {"kind": k, "T": T, "r": 0.5, "h": 0.5}
        return {"kind": k, "T": T, "radii": np.array([0.5, 0.5, 0.75])}
    off = np.zeros(3); off[int(rng.integers(3))] = float(rng.choice([0.05, 0.1, -0.05, 0.25]))
    sA = make(np.zeros(3)); sB = make(off)
    from .. import gen
    A = gen.build(sA); B = gen.build(sB)
    dirs = np.array([[1.0, 0, 0], [0, 1.0, 0], [0, 0, 1.0], [-1.0, -1.0, -1.0]])
    S = np.array([np.asarray(A.support_function(d), float) - np.asarray(B.support_function(-d), float) for d in dirs])
    try:
        bary = np.linalg.solve(np.vstack((S.T, np.ones(4))), np.array([0.0, 0, 0, 1.0]))
    except np.linalg.LinAlgError:
        return
    if not np.all(bary > 1e-3):
        return
    pa = monitors.Counted(A, 20 * LIMIT); pb = monitors.Counted(B, 20 * LIMIT)
    key = {"cls": "symmetric-smooth", "needle": False, "degenerate": False, "fn": "epa[raised limits]"}
    try:
        mtv, faces, ok = epa_mod.epa(S, pa, pb, max_iter=256, max_faces=2048)
        ev["epa_raised_limit_calls"] = ev.get("epa_raised_limit_calls", 0) + 1
        if ok and not np.all(np.isfinite(np.asarray(mtv, float))):
            viol.append({"key": dict(key, kind="non-finite-output", simplex_degenerate=False), "err": None, "msg": "epa(max_iter=256, max_faces=2048) returned %r" % (mtv,)})
    except AssertionError:
        ev["epa_raised_limit_calls"] = ev.get("epa_raised_limit_calls", 0) + 1
    except monitors.SupportBudgetExceeded:
        viol.append({"key": dict(key, kind="support-budget-exceeded"), "err": None,
                     "msg": "epa(max_iter=256, max_faces=2048) on %s/%s used more than %d support evaluations" % (sA["kind"], sB["kind"], 20 * LIMIT)})
    except Exception as e:  # noqa: BLE001
        viol.append({"key": dict(key, kind="exception", exc=type(e).__name__, simplex_degenerate=False), "err": None,
                     "msg": "epa(max_iter=256, max_faces=2048) on %s/%s raised %s: %s" % (sA["kind"], sB["kind"], type(e).__name__, str(e)[:160])})


def _cap_stress(A, B, sA, sB, r_jolt, ev, viol, key0, names, cls):
    from distance3d import gjk, mpr, minkowski, epa as epa_mod
    M = 2

    def over(fn, phase, n, bound):
        viol.append({"key": dict(key0, fn=fn, kind="iteration-cap-not-enforced", phase=phase), "err": float(n),
                     "msg": "%s(%s,%s) [%s] with cap %d: %d support-point queries in phase '%s' (bound %d)" % (
                         fn, names[0], names[1], cls, M, n, phase, bound)})

    fns = {"discover": mpr._discover_portal, "refine": mpr._refine_portal, "peninfo": mpr._find_penetration_info,
           "sup": minkowski.support_function}
    for fn, call in (("mpr_penetration", lambda: mpr.mpr_penetration(A, B, max_iterations=M)),
                     ("mpr_intersection", lambda: mpr.mpr_intersection(A, B, max_iterations=M))):
        try:
            with monitors.PhaseCounter(fns) as pc:
                call()
        except Exception:  # noqa: BLE001  (results under a tiny cap are unspecified; exceptions are judged with default caps)
            pass
        ph = pc.per_phase(("discover", "refine", "peninfo"), "sup")
        ev["cap_stress_calls"] = ev.get("cap_stress_calls", 0) + 1
        if ph.get("discover", 0) > 2 + M:
            over(fn, "portal discovery", ph["discover"], 2 + M)
        if ph.get("peninfo", 0) > M + 2:
            over(fn, "penetration info", ph["peninfo"], M + 2)
    pa = monitors.Counted(A, LIMIT); pb = pa if B is A else monitors.Counted(B, LIMIT)
    try:
        gjk.gjk_intersection_libccd(pa, pb, max_iterations=M)
    except Exception:  # noqa: BLE001
        pass
    ev["cap_stress_calls"] += 1
    n = pa.n + (0 if pb is pa else pb.n)
    if n > 2 * M:
        over("gjk_intersection_libccd", "main loop", n, 2 * M)
    if r_jolt is not None and r_jolt[0] == 0.0 and r_jolt[3] is not None and np.all(np.isfinite(np.asarray(r_jolt[3], float))):
        pa = monitors.Counted(A, LIMIT); pb = pa if B is A else monitors.Counted(B, LIMIT)
        try:
            epa_mod.epa(np.array(r_jolt[3], dtype=float), pa, pb, max_iter=M)
        except Exception:  # noqa: BLE001
            pass
        ev["cap_stress_calls"] += 1
        n = pa.n + (0 if pb is pa else pb.n)
        if n > 2 * M:
            over("epa", "main loop", n, 2 * M)
    for acc in (False, True):
        try:
            it = gjk.gjk_nesterov_accelerated(A, B, max_interations=3, use_nesterov_acceleration=acc)[3]
            ev["cap_stress_calls"] += 1
            if it > 3:
                over("gjk_nesterov_accelerated", "main loop", it, 3)
            if sA["kind"] in PRIM and sB["kind"] in PRIM:
                it = gjk.gjk_nesterov_accelerated_primitives(A, B, max_interations=3, use_nesterov_acceleration=acc)[3]
                if it > 3:
                    over("gjk_nesterov_accelerated_primitives", "main loop", it, 3)
        except Exception:  # noqa: BLE001
            pass
