"""C15 - hydroelastic contact polygons lie on the contact plane inside both tetrahedra.

Monitors on ContactSurface (find_contact_surface) and on single
intersect_tetrahedron_pair calls: every polygon vertex on the reported plane and
inside both tetrahedra (own barycentric coordinates >= -1e-9), convex polygon
with non-negative area, force along the normal with non-negative pressure,
order independence (swap the tetrahedra), disjoint bodies => no intersection
and zero wrenches; history: the same bodies queried again in other roles.
"""
import numpy as np

from .. import gen, hydro, oracles as O

ID = "C15"
PROPNUM = 15
LEVEL = "exploration"
NEED_STUB = True
TOL = 1e-9
MODES = {"quick": ["jit"] * 12 + ["bounds"] * 4, "thorough": ["jit"] * 12 + ["bounds"] * 4}
CASE_TIMEOUT_S = 600
RULE = ("one case = one pair of rigid bodies from the six factories (coarse meshes: orders 1-2, resolution ~ radius) in a "
        "general pose (60%), axis-aligned stacking on a lattice with faces parallel to the contact plane (30%) or certified "
        "disjoint (10%), Young's moduli log-uniform in [1e-2,1e2]; find_contact_surface is run with the brute-force broad phase, "
        "every reported polygon is judged; then a third body is queried against both in changing roles and the first pair is "
        "queried again (history); additionally 20 single tetrahedron pairs per case (random, and dyadic axis-aligned ones) go "
        "through intersect_tetrahedron_pair in both orders. non-trivial = at least one polygon judged; distinct = distinct scene hashes")
ASSUMPTIONS = ["tetrahedra of both bodies are expressed in body 2's frame after find_contact_surface (documented)",
               "K9: known findings for axis-aligned stacking (plane through the frame origin / faces parallel to the plane)"]
MIN_EVENTS = {"polygons": 3000, "surfaces": 150, "single_pairs": 1500, "disjoint_scenes": 10, "history_queries": 100}
MAX_INCONCLUSIVE_FRACTION = 0.5


def cases(tier):
    return 400 if tier == "quick" else 6000


def judge_polygon(poly, plane, tet1, tet2, L, key, viol, worst, what):
    poly = np.asarray(poly, float); plane = np.asarray(plane, float)
    n = plane[:3]; d = plane[3]
    if poly.ndim != 2 or poly.shape[1] != 3 or len(poly) < 3 or not np.all(np.isfinite(poly)) or not np.all(np.isfinite(plane)):
        viol.append({"key": dict(key, kind="malformed-polygon"), "err": None, "msg": "%s: polygon %r plane %r" % (what, poly.tolist(), plane.tolist())})
        return 0.0
    nn = float(np.linalg.norm(n))
    if abs(nn - 1.0) > 1e-9:
        viol.append({"key": dict(key, kind="plane-normal-not-unit"), "err": abs(nn - 1.0), "msg": "%s: |normal| = %.12g" % (what, nn)})
    off = float(np.abs(poly @ n - d).max()) / L
    worst["vertex off plane /L"] = max(worst.get("vertex off plane /L", 0.0), off)
    if off > TOL:
        viol.append({"key": dict(key, kind="vertex-off-plane"), "err": off, "msg": "%s: polygon vertex %.3g*L off the reported contact plane" % (what, off)})
    for nm, tet in (("tetrahedron 1", tet1), ("tetrahedron 2", tet2)):
        try:
            bc = hydro.bary(tet, poly)
        except np.linalg.LinAlgError:
            continue
        m = float(-bc.min())
        worst["barycentric violation"] = max(worst.get("barycentric violation", 0.0), m)
        if m > TOL:
            degenerate = bool(np.abs(poly - poly[0]).max() <= 1e-12 * L)
            viol.append({"key": dict(key, kind="vertex-outside-tetrahedron", point_polygon=degenerate), "err": m,
                         "msg": "%s: polygon vertex outside %s (barycentric coordinate %.3g)" % (what, nm, -m)})
            break
    # convexity and area (consecutive vertices closer than 1e-9*L are one vertex; turns are judged relative to
    # the lengths of the two edges so that rounding noise of nearly collinear edges is not a verdict)
    Q = [poly[0]]
    for v in poly[1:]:
        if np.linalg.norm(v - Q[-1]) > 1e-9 * L:
            Q.append(v)
    if len(Q) > 1 and np.linalg.norm(Q[0] - Q[-1]) <= 1e-9 * L:
        Q.pop()
    k = len(Q)
    if k >= 3:
        pos = neg = False
        for i in range(k):
            e1 = Q[(i + 1) % k] - Q[i]; e2 = Q[(i + 2) % k] - Q[(i + 1) % k]
            c = float(np.cross(e1, e2) @ n)
            lim = 1e-6 * float(np.linalg.norm(e1) * np.linalg.norm(e2))
            pos = pos or c > lim
            neg = neg or c < -lim
        if pos and neg:
            viol.append({"key": dict(key, kind="polygon-not-convex"), "err": None,
                         "msg": "%s: polygon is not convex / not consistently ordered: %s" % (what, poly.tolist())})
    k = len(poly)
    area = 0.5 * abs(sum(np.cross(poly[i] - poly[0], poly[i + 1] - poly[0]) @ n for i in range(1, k - 1)))
    return float(area)


def _rand_tet(rng, s):
    while True:
        t = rng.normal(size=(4, 3)) * s
        if abs(np.linalg.det(t[1:] - t[0])) > 1e-3 * s ** 3:
            return np.ascontiguousarray(t)


def _dyadic_tet(rng):
    while True:
        t = rng.integers(-4, 5, size=(4, 3)).astype(float) / 4.0
        if abs(np.linalg.det(t[1:] - t[0])) > 1e-6:
            return np.ascontiguousarray(t)


def run_case(rng, idx, tier):
    from distance3d import hydroelastic_contact as hc
    viol = []; worst = {}
    ev = {"polygons": 0, "surfaces": 0, "single_pairs": 0, "disjoint_scenes": 0, "history_queries": 0, "intersecting_single_pairs": 0}
    sc = hydro.scene(rng, hydro.BODIES[idx % 6], hydro.BODIES[(idx // 6) % 6])
    (k1, k2), (p1, p2), (T1, T2) = sc["kinds"], sc["params"], sc["poses"]
    E = (gen.logu(rng, 1e-2, 1e2), gen.logu(rng, 1e-2, 1e2)) if rng.random() < 0.7 else (1.0, 1.0)
    key0 = {"placement": sc["placement"], "equal_moduli": E[0] == E[1]}
    rec = {"cls": "%s|%s|%s" % (k1, k2, sc["placement"]), "nontrivial": False, "sig": repr(hydro.describe(sc)),
           "sample": dict(hydro.describe(sc), youngs_moduli=E)}
    L = 1.0

    def surface(b1, b2, tag, expect_disjoint=False):
        try:
            cs = hc.find_contact_surface(b1, b2)
        except Exception as e:  # noqa: BLE001
            viol.append({"key": dict(key0, kind="exception", exc=type(e).__name__, where=tag), "err": None,
                         "msg": "find_contact_surface(%s) raised %s: %s" % (tag, type(e).__name__, str(e)[:200])})
            return None
        ev["surfaces"] += 1
        if expect_disjoint:
            if cs.intersection or len(cs.contact_polygons) > 0:
                viol.append({"key": dict(key0, kind="intersection-of-disjoint-bodies"), "err": None,
                             "msg": "%s: bodies separated by a certified gap of %.3g are reported as intersecting (%d polygons)" % (tag, sc["gap"], len(cs.contact_polygons))})
            return cs
        tp1 = np.asarray(b1.tetrahedra_points, float); tp2 = np.asarray(b2.tetrahedra_points, float)
        R2w = np.asarray(b2.body2origin_, float)
        plane_through_origin = 0
        for i, poly in enumerate(cs.contact_polygons):
            i1 = cs.intersecting_tetrahedra1[i]; i2 = cs.intersecting_tetrahedra2[i]
            plane = np.asarray(cs.contact_planes[i], float)
            k = dict(key0, plane_through_frame_origin=bool(abs(plane[3]) < 1e-12))
            a = judge_polygon(poly, plane, tp1[i1], tp2[i2], L, k, viol, worst, "%s polygon %d" % (tag, i))
            ev["polygons"] += 1
            f = np.asarray(cs.contact_forces[i], float); n = plane[:3]
            if np.linalg.norm(np.cross(f, n)) > 1e-9 * max(1e-300, np.linalg.norm(f)) + 1e-15:
                viol.append({"key": dict(k, kind="force-not-along-normal"), "err": None, "msg": "%s polygon %d: force %s not parallel to normal %s" % (tag, i, f.tolist(), n.tolist())})
            if not np.all(np.isfinite(f)) or cs.contact_areas[i] < 0:
                viol.append({"key": dict(k, kind="bad-force-or-area"), "err": None, "msg": "%s polygon %d: force %s area %r" % (tag, i, f.tolist(), cs.contact_areas[i])})
            if abs(float(cs.contact_areas[i]) - a) > 1e-9 * max(1.0, a) + 1e-12:
                viol.append({"key": dict(k, kind="area-differs"), "err": abs(float(cs.contact_areas[i]) - a),
                             "msg": "%s polygon %d: contact_areas %.6g vs polygon area %.6g" % (tag, i, cs.contact_areas[i], a)})
        return cs

    try:
        b1 = hydro.make_body(k1, p1, T1); b2 = hydro.make_body(k2, p2, T2)
        b1.youngs_modulus = E[0]; b2.youngs_modulus = E[1]
    except Exception as e:  # noqa: BLE001
        viol.append({"key": {"kind": "exception", "exc": type(e).__name__, "where": "make_body"}, "err": None, "msg": "factory raised %s" % type(e).__name__})
        rec.update(events=ev, viol=viol, worst=worst)
        return rec
    if sc["placement"] == "disjoint" and sc["gap"] is not None and sc["gap"] > 1e-3:
        ev["disjoint_scenes"] += 1
        surface(b1, b2, "disjoint pair", expect_disjoint=True)
        try:
            hit, w12, w21 = hc.contact_forces(hydro.make_body(k1, p1, T1), hydro.make_body(k2, p2, T2))
            if hit or np.abs(w12).max() > 0 or np.abs(w21).max() > 0:
                viol.append({"key": dict(key0, kind="wrench-for-disjoint-bodies"), "err": None, "msg": "contact_forces on disjoint bodies: %s %s %s" % (hit, w12, w21)})
        except Exception as e:  # noqa: BLE001
            viol.append({"key": dict(key0, kind="exception", exc=type(e).__name__, where="contact_forces"), "err": None, "msg": "contact_forces raised %s" % type(e).__name__})
    else:
        cs = surface(b1, b2, "pair(1,2)")
        # the documented world-frame summary (contact_forces(..., return_details=True)): every polygon on its reported
        # world-frame plane, every polygon inside the two world-frame tetrahedra it is reported for
        if cs is not None and cs.intersection:
            try:
                fa = hydro.make_body(k1, p1, T1); fb = hydro.make_body(k2, p2, T2)
                fa.youngs_modulus = E[0]; fb.youngs_modulus = E[1]
                det = hc.contact_forces(fa, fb, return_details=True)[3]
                polys = det["contact_polygons"]; planes = np.asarray(det["contact_planes"], float)
                t1w = np.asarray(det["intersecting_tetrahedra1"], float); t2w = np.asarray(det["intersecting_tetrahedra2"], float)
                Lw = max(1.0, float(np.abs(np.asarray(T2, float)[:3, 3]).max()))
                for i, poly in enumerate(polys):
                    kk = dict(key0, plane_through_frame_origin=bool(abs(np.asarray(cs.contact_planes[i], float)[3]) < 1e-12) if i < len(cs.contact_planes) else False,
                              frame="world")
                    judge_polygon(poly, planes[i], t1w[i], t2w[i], Lw, kk, viol, worst, "world-frame details polygon %d" % i)
                    ev["world_frame_polygons"] = ev.get("world_frame_polygons", 0) + 1
            except Exception as e:  # noqa: BLE001
                viol.append({"key": dict(key0, kind="exception", exc=type(e).__name__, where="return_details"), "err": None,
                             "msg": "contact_forces(return_details=True) raised %s: %s" % (type(e).__name__, str(e)[:160])})
        # history: a third body in changing roles, then the first pair again
        if cs is not None and idx % 2 == 0:
            k3 = str(rng.choice(hydro.BODIES)); p3 = hydro.body_params(rng, k3, 0.15)
            o1 = hydro.body_oracle(k1, p1, T1)
            T3 = O.pose(gen.rand_rot(rng), o1.center() + gen.rand_dir(rng) * 0.1)
            try:
                b3 = hydro.make_body(k3, p3, T3)
                # roles change so that every body is re-expressed in a frame it was not in before: b3 is fresh (own
                # frame), b2 moves into it as first argument and is then used as second argument again, ...
                surface(b2, b3, "pair(2,3)"); surface(b1, b2, "pair(1,2) again"); surface(b3, b1, "pair(3,1)")
                surface(b2, b3, "pair(2,3) again"); surface(b2, b1, "pair(2,1)")
                ev["history_queries"] += 5
            except Exception as e:  # noqa: BLE001
                viol.append({"key": dict(key0, kind="exception", exc=type(e).__name__, where="history"), "err": None, "msg": "history raised %s" % type(e).__name__})
    # single tetrahedron pairs, both orders
    for j in range(20):
        dy = bool(rng.random() < 0.4)
        stacked = bool(rng.random() < 0.3)
        if stacked:
            # two pressed flat surfaces: boundary faces (potential 0) parallel to z, apexes (potential > 0) inside the
            # bodies: the equal-pressure plane is exactly parallel to a face of both tetrahedra; dyadic coordinates
            dy = True
            def base():
                while True:
                    b = rng.integers(-4, 5, size=(3, 2)).astype(float) / 4.0
                    if abs(np.linalg.det(np.c_[b[1] - b[0], b[2] - b[0]])) > 1e-6:
                        return b
            b1_ = base(); b2_ = base() + rng.integers(-1, 2, size=2) / 4.0
            h1 = float(rng.integers(1, 9)) / 4.0; h2 = float(rng.integers(1, 9)) / 4.0
            zb = float(rng.integers(-8, 3)) / 8.0
            ap1 = np.r_[b1_.mean(axis=0) if rng.random() < 0.5 else b1_[0], -h1]
            ap2 = np.r_[b2_.mean(axis=0) if rng.random() < 0.5 else b2_[0], zb + h2]
            t1 = np.ascontiguousarray(np.vstack([np.c_[b1_, np.zeros(3)], ap1]))
            t2 = np.ascontiguousarray(np.vstack([np.c_[b2_, np.full(3, zb)], ap2]))
            e1 = np.array([0.0, 0.0, 0.0, float(rng.integers(1, 9)) / 4.0]); e2 = np.array([0.0, 0.0, 0.0, float(rng.integers(1, 9)) / 4.0])
            if rng.random() < 0.6:
                # general linear pressure fields with the same gradient direction: the equal-pressure plane can lie
                # outside one of the tetrahedra (then there is no contact)
                e1 = e1 + float(rng.integers(0, 9)) / 8.0; e2 = e2 + float(rng.integers(0, 9)) / 8.0
            if rng.random() < 0.5:
                perm = rng.permutation(4); t1 = np.ascontiguousarray(t1[perm]); e1 = np.ascontiguousarray(e1[perm])
            if rng.random() < 0.8:
                off = rng.integers(-8, 9, size=3).astype(float) / 8.0 + np.array([0.0, 0.0, 0.0625])
                t1 = np.ascontiguousarray(t1 + off); t2 = np.ascontiguousarray(t2 + off)
            if rng.random() < 0.3:
                # nearly parallel instead of exactly parallel faces: tilt the second tetrahedron by 1e-7..1e-3 rad
                w = gen.rand_dir(rng) * 10 ** rng.uniform(-7, -3)
                K = np.array([[0, -w[2], w[1]], [w[2], 0, -w[0]], [-w[1], w[0], 0]])
                c2 = t2.mean(axis=0)
                t2 = np.ascontiguousarray((t2 - c2) @ (np.eye(3) + K).T + c2)
                dy = False
        else:
            t1 = _dyadic_tet(rng) if dy else _rand_tet(rng, 0.3)
            t2 = (_dyadic_tet(rng) if dy else _rand_tet(rng, 0.3)) + (rng.integers(-2, 3, size=3) / 4.0 if dy else rng.normal(size=3) * 0.15)
            t2 = np.ascontiguousarray(t2)
            e1 = np.ascontiguousarray(rng.uniform(0, 1, size=4) * (rng.random(4) < 0.8)); e2 = np.ascontiguousarray(rng.uniform(0, 1, size=4) * (rng.random(4) < 0.8))
        if e1.max() == 0:
            e1[0] = 0.5
        if e2.max() == 0:
            e2[0] = 0.5
        try:
            X = hc.barycentric_transforms(np.array([t1, t2]))
            X1 = np.ascontiguousarray(X[0]); X2 = np.ascontiguousarray(X[1])
            if dy and rng.random() < 0.6:
                # exactly computed barycentric transforms (rational arithmetic) for dyadic tetrahedra: faces parallel
                # to the contact plane are then EXACTLY parallel (the pinv-based helper leaves 1e-15 residues)
                X1e, X2e = _exact_transform(t1), _exact_transform(t2)
                if np.allclose(X1e, X1, atol=1e-9) and np.allclose(X2e, X2, atol=1e-9):
                    X1, X2 = X1e, X2e
            r12 = hc.intersect_tetrahedron_pair(t1, e1, X1, t2, e2, X2)
            r21 = hc.intersect_tetrahedron_pair(t2, e2, X2, t1, e1, X1)
        except Exception as e:  # noqa: BLE001
            viol.append({"key": {"kind": "exception", "exc": type(e).__name__, "where": "intersect_tetrahedron_pair", "dyadic": dy}, "err": None,
                         "msg": "intersect_tetrahedron_pair raised %s: %s" % (type(e).__name__, str(e)[:160])})
            continue
        ev["single_pairs"] += 1
        ks = {"placement": "single-pair-stacked" if stacked else "single-pair", "dyadic": dy}
        if bool(r12[0]) != bool(r21[0]):
            pol = np.asarray((r12 if r12[0] else r21)[1][1], float)
            pp = bool(len(pol) > 0 and np.abs(pol - pol[0]).max() <= 1e-12)   # the one 'polygon' is a single point (K9)
            # a polygon without area (tetrahedra that only touch along a segment: cross-sections on opposite sides of a
            # shared edge) is the same contact as no polygon: either flag is right. Point polygons stay reported (K9).
            area = 0.0
            if len(pol) >= 3:
                area = 0.5 * float(np.linalg.norm(sum(np.cross(pol[i] - pol[0], pol[i + 1] - pol[0]) for i in range(1, len(pol) - 1))))
            if not pp and area <= 1e-12:
                ev["order_dependent_flag_zero_area"] = ev.get("order_dependent_flag_zero_area", 0) + 1
            else:
                viol.append({"key": dict(ks, kind="order-dependent-flag", point_polygon=pp), "err": None,
                         "msg": "intersect_tetrahedron_pair: %s for (t1,t2) but %s for (t2,t1): t1=%s t2=%s e1=%s e2=%s polygon=%s" % (r12[0], r21[0], t1.tolist(), t2.tolist(), e1.tolist(), e2.tolist(), np.round(pol, 12).tolist())})
        for (hit, info), (ta, tb), tag in ((r12, (t1, t2), "(t1,t2)"), (r21, (t2, t1), "(t2,t1)")):
            if hit:
                plane, poly = info
                k = dict(ks, plane_through_frame_origin=bool(abs(np.asarray(plane)[3]) < 1e-12))
                judge_polygon(poly, plane, ta, tb, 1.0, k, viol, worst, "single pair %s" % tag)
                ev["polygons"] += 1
        if r12[0] and r21[0]:
            ev["intersecting_single_pairs"] += 1
            A = np.asarray(r12[1][1], float); B = np.asarray(r21[1][1], float)
            if len(A) >= 3 and len(B) >= 3:
                dAB = max(np.min(np.linalg.norm(B - a, axis=1)) for a in A)
                dBA = max(np.min(np.linalg.norm(A - b, axis=1)) for b in B)
                e = max(dAB, dBA)
                worst["order dependence of polygon"] = max(worst.get("order dependence of polygon", 0.0), float(e))
                if e > 1e-7:
                    pp = bool(np.abs(A - A[0]).max() <= 1e-12 or np.abs(B - B[0]).max() <= 1e-12)
                    viol.append({"key": dict(ks, kind="order-dependent-polygon", point_polygon=pp), "err": float(e),
                                 "msg": "polygon of (t1,t2) and of (t2,t1) differ by %.3g" % e})
    rec["nontrivial"] = ev["polygons"] > 0
    rec.update(events=ev, viol=viol, worst=worst)
    return rec


def _exact_transform(tet):
    """barycentric transform X (rows: coefficient vectors of the barycentric coordinate functions) by exact
    rational inversion of [tet^T; 1]"""
    from fractions import Fraction
    A = [[Fraction(float(tet[j][i])) for j in range(4)] for i in range(3)] + [[Fraction(1)] * 4]
    n = 4
    M = [row[:] + [Fraction(int(i == j)) for j in range(n)] for i, row in enumerate(A)]
    for c in range(n):
        piv = next(r for r in range(c, n) if M[r][c] != 0)
        M[c], M[piv] = M[piv], M[c]
        pv = M[c][c]
        M[c] = [x / pv for x in M[c]]
        for r in range(n):
            if r != c and M[r][c] != 0:
                f = M[r][c]
                M[r] = [x - f * y for x, y in zip(M[r], M[c])]
    return np.ascontiguousarray(np.array([[float(x) for x in row[n:]] for row in M]))
