"""C16 - hydroelastic contact forces obey action-reaction, symmetry and frame invariance.

Metamorphic monitors on contact_forces: f12 = -f21; swapping the bodies swaps
the wrenches; one rigid motion applied to both bodies rotates the forces;
repeating the call on the same (internally re-expressed) bodies, also after
other queries, reproduces them - each within 5% of |f| with an unchanged
intersection flag. The tree-based broad phase must report exactly the same
intersecting tetrahedron pairs as the brute-force one.
"""
import numpy as np

from .. import gen, hydro, oracles as O

ID = "C16"
PROPNUM = 16
LEVEL = "exploration"
NEED_STUB = True
REL = 0.05
MODES = {"quick": ["jit"] * 12 + ["bounds"] * 4, "thorough": ["jit"] * 12 + ["bounds"] * 4}
CASE_TIMEOUT_S = 600
RULE = ("one case = one overlapping pair of factory bodies (all 36 kind pairs by index; general rotations of BOTH bodies, "
        "axis-aligned stacking, equal orientation of both bodies) with Young's moduli in [1e-2,1e2]; executed: "
        "contact_forces(b1,b2), the swapped call on fresh bodies, the call on both bodies moved by one random rigid motion, a "
        "repeated call on the same (already re-expressed) bodies, a repeated call after a query against a third body "
        "(interleaved history), and find_contact_surface with use_aabb_trees False/True on fresh bodies. non-trivial = the pair "
        "intersects with |f| > 0; distinct = distinct scene hashes")
ASSUMPTIONS = ["relations are judged on the force part of the wrenches relative to |f12| of the reference call (5%)",
               "bodies are rebuilt from their parameters for every independent call (contact queries re-express body 1)"]
MIN_EVENTS = {"pairs_with_contact": 250, "relations_checked": 1500, "tree_vs_bruteforce": 250}
MAX_INCONCLUSIVE_FRACTION = 0.6


def cases(tier):
    return 432 if tier == "quick" else 7200


def run_case(rng, idx, tier):
    from distance3d import hydroelastic_contact as hc
    viol = []; worst = {}
    ev = {"pairs_with_contact": 0, "relations_checked": 0, "tree_vs_bruteforce": 0}
    placement = str(rng.choice(["general", "aligned", "same-orientation"], p=[.6, .2, .2]))
    sc = hydro.scene(rng, hydro.BODIES[idx % 6], hydro.BODIES[(idx // 6) % 6], placement="aligned" if placement == "aligned" else "general")
    (k1, k2), (p1, p2), (T1, T2) = sc["kinds"], sc["params"], sc["poses"]
    if placement == "same-orientation":
        T2 = T2.copy(); T2[:3, :3] = T1[:3, :3]
    E = (gen.logu(rng, 1e-2, 1e2), gen.logu(rng, 1e-2, 1e2)) if rng.random() < 0.6 else (1.0, 1.0)
    key0 = {"placement": placement}
    rec = {"cls": "%s|%s|%s" % (k1, k2, placement), "nontrivial": False, "sig": repr((hydro.describe(sc), placement)),
           "sample": dict(hydro.describe(sc), placement=placement, youngs_moduli=E)}

    def bodies(G=None):
        G = np.eye(4) if G is None else G
        a = hydro.make_body(k1, p1, G @ T1); b = hydro.make_body(k2, p2, G @ T2)
        a.youngs_modulus = E[0]; b.youngs_modulus = E[1]
        return a, b

    def call(a, b, tag):
        try:
            r = hc.contact_forces(a, b)
            return bool(r[0]), np.asarray(r[1], float), np.asarray(r[2], float)
        except Exception as e:  # noqa: BLE001
            viol.append({"key": dict(key0, kind="exception", exc=type(e).__name__, where=tag), "err": None,
                         "msg": "contact_forces(%s) raised %s: %s" % (tag, type(e).__name__, str(e)[:200])})
            return None

    b1, b2 = bodies()
    ref = call(b1, b2, "reference")
    if ref is None:
        rec.update(events=ev, viol=viol, worst=worst)
        return rec
    hit, w12, w21 = ref
    f = float(np.linalg.norm(w12[:3]))
    if not (np.all(np.isfinite(w12)) and np.all(np.isfinite(w21))):
        viol.append({"key": dict(key0, kind="non-finite"), "err": None, "msg": "wrenches %s %s" % (w12, w21)})
        rec.update(events=ev, viol=viol, worst=worst)
        return rec
    if not hit or f == 0.0:
        rec.update(events=ev, viol=viol, worst=worst, inconcl=["pair does not produce a contact force"])
        return rec
    ev["pairs_with_contact"] += 1
    rec["nontrivial"] = True

    def rel(name, got, want, flag, extra=None):
        ev["relations_checked"] += 1
        e = float(np.linalg.norm(np.asarray(got) - np.asarray(want))) / f
        worst[name] = max(worst.get(name, 0.0), e)
        k = dict(key0, kind="relation-violated", relation=name)
        if extra:
            k.update(extra)
        if flag is not None and flag != hit:
            viol.append({"key": dict(k, sub="flag"), "err": None, "msg": "%s: intersection flag %s, reference %s" % (name, flag, hit)})
        elif e > REL:
            viol.append({"key": k, "err": e, "msg": "%s(%s,%s) [%s]: relation '%s' off by %.3g of |f| (got %s, expected %s)" % (
                "contact_forces", k1, k2, placement, name, e, np.asarray(got).tolist(), np.asarray(want).tolist())})

    # torques: wrench12 carries the torque about the centre of mass of body 2, wrench21 about that of body 1, both as
    # free vectors in the world frame; they follow the swap / rigid motion / repeat relations like the forces. Scale:
    # |f| times the size of the bodies (a 5 % error of the force acting at a lever arm of one body size)
    D = max(hydro.body_oracle(k1, p1, T1).scale(), hydro.body_oracle(k2, p2, T2).scale())

    def relt(name, got, want, flag):
        if flag is not None and flag != hit:
            return
        ev["torque_relations_checked"] = ev.get("torque_relations_checked", 0) + 1
        e = float(np.linalg.norm(np.asarray(got) - np.asarray(want))) / (f * D)
        worst[name] = max(worst.get(name, 0.0), e)
        if e > REL:
            viol.append({"key": dict(key0, kind="relation-violated", relation=name), "err": e,
                         "msg": "contact_forces(%s,%s) [%s]: relation '%s' off by %.3g of |f|*size (got %s, expected %s)" % (
                             k1, k2, placement, name, e, np.asarray(got).tolist(), np.asarray(want).tolist())})

    rel("action-reaction f12 = -f21", w12[:3], -w21[:3], None)
    # documented option return_details=True must not change the wrenches (same inputs: compared at 1e-9)
    a, b = bodies()
    try:
        rd = hc.contact_forces(a, b, return_details=True)
        ev["relations_checked"] += 1
        ed = max(float(np.linalg.norm(np.asarray(rd[1], float) - w12)), float(np.linalg.norm(np.asarray(rd[2], float) - w21))) / max(
            1e-300, float(np.linalg.norm(w12)) + float(np.linalg.norm(w21)))
        worst["return_details changes wrenches"] = max(worst.get("return_details changes wrenches", 0.0), ed)
        if bool(rd[0]) != hit or ed > 1e-9:
            viol.append({"key": dict(key0, kind="relation-violated", relation="return_details=True gives the same wrenches"), "err": ed,
                         "msg": "contact_forces(%s,%s, return_details=True): wrenches differ from the default call by %.3g (relative)" % (k1, k2, ed)})
        det = rd[3]
        if isinstance(det, dict) and "contact_forces" in det:
            # coarse contact: with a dozen polygons one tetrahedron pair whose thresholded decision flips under the
            # 1e-16 perturbation of a re-expression already moves the force by more than 5 % (K32)
            key0["few_polygons"] = bool(len(det["contact_forces"]) <= 20)
        if hit and isinstance(det, dict) and "contact_forces" in det:
            fs = np.sum(np.asarray(det["contact_forces"], float), axis=0)
            e2 = float(np.linalg.norm(fs - w21[:3])) / f
            if e2 > 1e-6:
                viol.append({"key": dict(key0, kind="relation-violated", relation="details: sum of polygon forces = f21"), "err": e2,
                             "msg": "sum of details['contact_forces'] differs from the world-frame force f21 by %.3g of |f|" % e2})
    except Exception as e:  # noqa: BLE001
        viol.append({"key": dict(key0, kind="exception", exc=type(e).__name__, where="return_details"), "err": None,
                     "msg": "contact_forces(return_details=True) raised %s: %s" % (type(e).__name__, str(e)[:160])})
    # swap (fresh bodies)
    a, b = bodies()
    r = call(b, a, "swapped")
    if r is not None:
        rel("swap: f12(b2,b1) = f21(b1,b2)", r[1][:3], w21[:3], r[0])
        rel("swap: f21(b2,b1) = f12(b1,b2)", r[2][:3], w12[:3], r[0])
        relt("swap: torque12(b2,b1) = torque21(b1,b2)", r[1][3:], w21[3:], r[0])
        relt("swap: torque21(b2,b1) = torque12(b1,b2)", r[2][3:], w12[3:], r[0])
    # common rigid motion
    G = O.pose(gen.rand_rot(rng, str(rng.choice(["haar", "perm", "axis"]))), gen.center(rng, far_ok=False))
    a, b = bodies(G)
    r = call(a, b, "moved")
    if r is not None:
        rel("rigid motion: f12' = R f12", r[1][:3], G[:3, :3] @ w12[:3], r[0])
        rel("rigid motion: f21' = R f21", r[2][:3], G[:3, :3] @ w21[:3], r[0])
        relt("rigid motion: torque12' = R torque12", r[1][3:], G[:3, :3] @ w12[3:], r[0])
        relt("rigid motion: torque21' = R torque21", r[2][3:], G[:3, :3] @ w21[3:], r[0])
    # repeat on the same bodies (b1 has been re-expressed in b2's frame by the reference call)
    r = call(b1, b2, "repeated")
    if r is not None:
        rel("repeat: same bodies again", r[1][:3], w12[:3], r[0])
        relt("repeat: torques again", np.r_[r[1][3:], r[2][3:]], np.r_[w12[3:], w21[3:]], r[0])
    # the bodies move between two time steps by editing their pose in place (as the upstream pressure-field example
    # does): the second query must equal a query on fresh bodies at the new poses
    try:
        dlt = gen.rand_dir(rng) * 0.02 * D
        b2.body2origin_[:3, 3] += dlt
        r = call(b1, b2, "after in-place move of body 2")
        T2m = np.array(T2, dtype=float); T2m[:3, 3] += dlt
        fa = hydro.make_body(k1, p1, T1); fb = hydro.make_body(k2, p2, T2m)
        fa.youngs_modulus = E[0]; fb.youngs_modulus = E[1]
        rf = call(fa, fb, "fresh bodies at the moved poses")
        if r is not None and rf is not None and rf[0]:
            ev["inplace_moves"] = ev.get("inplace_moves", 0) + 1
            fm = max(float(np.linalg.norm(rf[1][:3])), 1e-300)
            em = float(np.linalg.norm(r[1][:3] - rf[1][:3])) / fm
            worst["in-place move vs fresh"] = max(worst.get("in-place move vs fresh", 0.0), em)
            # two different computations (history bodies after another re-expression vs. fresh bodies), each with the
            # 5 % discretisation noise the property allows: judged at 2 x 5 % (6.4 % was seen on the unchanged tree)
            if bool(r[0]) != bool(rf[0]) or em > 2 * REL:
                viol.append({"key": dict(key0, kind="relation-violated", relation="in-place pose edit = fresh bodies at the new pose"), "err": em,
                             "msg": "contact_forces(%s,%s) [%s] after body 2 was moved in place by %s: force differs from fresh bodies at the same poses by %.3g of |f| (flag %s vs %s)" % (
                                 k1, k2, placement, dlt.tolist(), em, r[0], rf[0])})
        b2.body2origin_[:3, 3] -= dlt
    except Exception as e:  # noqa: BLE001
        viol.append({"key": dict(key0, kind="exception", exc=type(e).__name__, where="in-place move"), "err": None, "msg": "in-place move raised %s: %s" % (type(e).__name__, str(e)[:160])})
    # interleaved history: a third body in between, changing roles
    try:
        k3 = str(rng.choice(hydro.BODIES)); p3 = hydro.body_params(rng, k3, 0.15)
        o1 = hydro.body_oracle(k1, p1, T1)
        b3 = hydro.make_body(k3, p3, O.pose(gen.rand_rot(rng), o1.center() + gen.rand_dir(rng) * 0.12))
        call(b2, b3, "history(2,3)"); call(b3, b1, "history(3,1)")
        r = call(b1, b2, "after-history")
        if r is not None:
            rel("history: (1,2) after (2,3),(3,1)", r[1][:3], w12[:3], r[0])
            relt("history: torques (1,2) after (2,3),(3,1)", np.r_[r[1][3:], r[2][3:]], np.r_[w12[3:], w21[3:]], r[0])
        r = call(b2, b1, "after-history-swapped")
        if r is not None:
            rel("history: swapped after history", r[1][:3], w21[:3], r[0])
            relt("history: torques swapped after history", np.r_[r[1][3:], r[2][3:]], np.r_[w21[3:], w12[3:]], r[0])
    except Exception as e:  # noqa: BLE001
        viol.append({"key": dict(key0, kind="exception", exc=type(e).__name__, where="history"), "err": None, "msg": "history raised %s: %s" % (type(e).__name__, str(e)[:160])})
    # tree based vs brute force broad phase
    try:
        from distance3d.aabb_tree import all_aabbs_overlap

        def state_based(a, b, tag):
            """same body state, no re-expression in between: candidate pair sets must be exactly equal"""
            _, _, _, pt = a.aabb_tree.overlaps_aabb_tree(b.aabb_tree)
            _, _, pb = all_aabbs_overlap(np.ascontiguousarray(a.aabbs), np.ascontiguousarray(b.aabbs))
            st = sorted((int(i), int(j)) for i, j in pt); sb = sorted((int(i), int(j)) for i, j in pb)
            if st != sb:
                viol.append({"key": dict(key0, kind="tree-broad-phase-differs", sub=tag), "err": float(len(set(st) ^ set(sb))),
                             "msg": "%s: aabb_tree reports %d candidate pairs, all_aabbs_overlap %d on the same body state (symmetric difference %d)" % (
                                 tag, len(st), len(sb), len(set(st) ^ set(sb)))})
        a, b = bodies(); cs0 = hc.find_contact_surface(a, b, use_aabb_trees=False)
        a, b = bodies(); cs1 = hc.find_contact_surface(a, b, use_aabb_trees=True)
        ev["tree_vs_bruteforce"] += 1
        s0 = sorted(zip(map(int, cs0.intersecting_tetrahedra1), map(int, cs0.intersecting_tetrahedra2)))
        s1 = sorted(zip(map(int, cs1.intersecting_tetrahedra1), map(int, cs1.intersecting_tetrahedra2)))
        if s0 != s1 or bool(cs0.intersection) != bool(cs1.intersection):
            viol.append({"key": dict(key0, kind="tree-broad-phase-differs", sub="fresh"), "err": float(len(set(s0) ^ set(s1))),
                         "msg": "use_aabb_trees=True reports %d intersecting pairs, brute force %d on identical fresh bodies (symmetric difference %d)" % (len(s1), len(s0), len(set(s0) ^ set(s1)))})
        state_based(a, b, "after first tree query")
        # history: body a is re-expressed in other frames (third body, moved partner) and queried through the trees again
        G2 = O.pose(gen.rand_rot(rng), rng.normal(size=3) * 0.05)
        b_moved = hydro.make_body(k2, p2, G2 @ T2); b_moved.youngs_modulus = E[1]
        cs2 = hc.find_contact_surface(a, b_moved, use_aabb_trees=True)
        state_based(a, b_moved, "after re-expression (moved partner)")
        a2 = hydro.make_body(k1, p1, T1); a2.youngs_modulus = E[0]
        b_moved2 = hydro.make_body(k2, p2, G2 @ T2); b_moved2.youngs_modulus = E[1]
        cs3 = hc.find_contact_surface(a2, b_moved2, use_aabb_trees=False)
        n2, n3 = len(cs2.intersecting_tetrahedra1), len(cs3.intersecting_tetrahedra1)
        s2 = set(zip(map(int, cs2.intersecting_tetrahedra1), map(int, cs2.intersecting_tetrahedra2)))
        s3 = set(zip(map(int, cs3.intersecting_tetrahedra1), map(int, cs3.intersecting_tetrahedra2)))
        # end-to-end (inputs differ by the rounding of one more re-expression): sets agree up to borderline pairs
        if len(s2 ^ s3) > max(2, 0.05 * max(n2, n3)) or (bool(cs2.intersection) != bool(cs3.intersection) and max(n2, n3) > 2):
            viol.append({"key": dict(key0, kind="tree-broad-phase-differs", sub="history"), "err": float(len(s2 ^ s3)),
                         "msg": "tree query on a re-expressed body: %d intersecting pairs, brute force on fresh bodies %d (symmetric difference %d)" % (n2, n3, len(s2 ^ s3))})
    except Exception as e:  # noqa: BLE001
        viol.append({"key": dict(key0, kind="exception", exc=type(e).__name__, where="use_aabb_trees"), "err": None,
                     "msg": "find_contact_surface(use_aabb_trees) raised %s: %s" % (type(e).__name__, str(e)[:160])})
    rec.update(events=ev, viol=viol, worst=worst)
    return rec
