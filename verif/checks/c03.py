"""C03 - support mappings return a point of the shape that is extreme along
the query direction; first_vertex() and center() are points of the set; for
meshes the answer does not depend on earlier queries (cached start vertex).

Monitor shape: oracle on recorded outputs + history (same object queried with
a hostile direction sequence, interleaved with update_pose for meshes).
"""
import numpy as np

from .. import gen, oracles as O

ID = "C03"
PROPNUM = 3
LEVEL = "exploration"
TOL = 1e-9
MODES = {"quick": ["jit"] * 12 + ["bounds"] * 4, "thorough": ["jit"] * 12 + ["bounds"] * 4}
RULE = ("one case = one collider (10 types, 15% wrapped in Margin; rotation classes haar/axis/perm/ident/tiny/product; "
        "sizes unit/log-uniform[1e-2,1e2]/round; centres near/mid/far/lattice) queried on the SAME object with 30 (quick) or "
        "60 (thorough) directions: random, +-world axes, +-shape axes, sums/differences of two axes, exact zero components, "
        "axes tilted by 1e-12..1e-4, norms 1e-3..1e3; meshes get a pose update in the middle of the sequence. "
        "Every answer is compared with the closed-form oracle (membership: dist(p)<=1e-9L, extremality: h(d^)-p.d^<=1e-9L). "
        "non-trivial = at least one direction of the case is not 'rand' (axis/sum/zeros/tilt) or the object is a mesh with "
        ">= 2 queries (cache exercised); distinct = distinct (spec, direction list) hashes")
ASSUMPTIONS = [
    "oracle closed forms in verif/oracles.py (support value, distance to shape) are correct; NNLS hull distance noise <= 1e-11*L",
    "tolerance applied to the projection on the unit direction d/|d|",
]
MIN_EVENTS = {"support_calls": 2000, "first_vertex_calls": 50, "pose_updates": 300}
CASE_TIMEOUT_S = 60
TIMEOUT_IS_VIOLATION = True   # "support_function(d) returns a point": a query that never returns does not
HANG_S = 240


def cases(tier):
    return 3000 if tier == "quick" else 60000


def run_case(rng, idx, tier):
    ndirs = 30 if tier == "quick" else 60
    spec = gen.rand_spec(rng, margin_p=0.15)
    kind = O.base_kind(spec)
    orc = O.oracle(spec)
    col = gen.build(spec)
    frames = []
    b = spec["base"] if spec["kind"] == "margin" else spec
    if "T" in b:
        frames.append(np.asarray(b["T"])[:3, :3])
    elif kind == "disk":
        frames.append(np.column_stack([np.cross(b["n"], gen.rand_dir(rng)), b["n"], b["n"]]))
    elif kind == "ellipse":
        A = np.asarray(b["axes"])
        frames.append(np.column_stack([A[0], A[1], np.cross(A[0], A[1])]))
    dirs = gen.rand_dirs(rng, ndirs, frames)
    extra_dirs = gen.mesh_vertex_dirs(spec)
    if extra_dirs:
        dirs[3:3] = extra_dirs
        dirs[-1] = extra_dirs[0]
    face_dirs = gen.mesh_face_normal_dirs(spec, rng)
    if face_dirs:
        # directions normal to a face (all its vertices equally extreme), before and after the pose update
        dirs[6:6] = face_dirs[:2]
        dirs.extend(face_dirs[2:])
    viol = []; worst = {"membership/L": 0.0, "extremality/L": 0.0}
    ev = {"support_calls": 0, "first_vertex_calls": 0, "pose_updates": 0}
    L = O.scene_L([orc])

    def judge(p, d, o, what):
        if not (isinstance(p, np.ndarray) and p.shape == (3,) and np.all(np.isfinite(p))):
            viol.append({"key": {"kind": "bad-output", "type": kind, "what": what}, "err": None,
                         "msg": "%s returned %r" % (what, p)})
            return
        m = o.dist(p) / L
        worst["membership/L"] = max(worst["membership/L"], m)
        if m > TOL:
            viol.append({"key": {"kind": "not-a-member", "type": O.name(spec), "what": what}, "err": m,
                         "msg": "%s of %s returned a point %.3g*L outside the shape (d=%s)" % (what, O.name(spec), m, None if d is None else d.tolist())})
        if d is not None:
            dh = d / np.linalg.norm(d)
            e = (o.h(dh) - float(p @ dh)) / L
            worst["extremality/L"] = max(worst["extremality/L"], e)
            if e > TOL:
                viol.append({"key": {"kind": "not-extreme", "type": O.name(spec), "what": what,
                                     "tiny_direction": bool(np.linalg.norm(d) < 1e-6)}, "err": e,
                             "msg": "%s of %s: support value missed by %.3g*L for d=%s" % (what, O.name(spec), e, d.tolist())})

    cur = orc
    updatable = gen.target_pose(b) is not None
    do_update = updatable and (kind == "mesh" or rng.random() < 0.3)
    for i, d in enumerate(dirs):
        if do_update and i == len(dirs) // 2:
            # history clause: pose update in the middle (mesh: the cached vertex stays); the pose arrives as a fresh
            # array, a slice of a stack or a re-used buffer that was overwritten in place
            G = O.pose(gen.rand_rot(rng, "tiny" if rng.random() < 0.2 else None), rng.normal(size=3))
            spec2 = O.moved(spec, G)
            b2 = spec2["base"] if spec2["kind"] == "margin" else spec2
            gen.apply_pose(col, gen.target_pose(b2), rng)
            cur = O.oracle(spec2)
            L = max(L, O.scene_L([cur]))
            ev["pose_updates"] += 1
        try:
            p = col.support_function(d)
        except Exception as e:  # noqa: BLE001
            viol.append({"key": {"kind": "exception", "type": O.name(spec), "exc": type(e).__name__}, "err": None,
                         "msg": "support_function raised %s: %s" % (type(e).__name__, str(e)[:200])})
            continue
        ev["support_calls"] += 1
        judge(p, d, cur, "support_function")
    for what in ("first_vertex", "center"):
        try:
            p = getattr(col, what)()
            ev["first_vertex_calls"] += 1
            judge(np.asarray(p, float), None, cur, what)
        except Exception as e:  # noqa: BLE001
            viol.append({"key": {"kind": "exception", "type": O.name(spec), "exc": type(e).__name__, "what": what}, "err": None,
                         "msg": "%s raised %s" % (what, type(e).__name__)})
    sig = repr((O.describe(spec), [d.tolist() for d in dirs[:4]]))
    return {"cls": "%s|%s" % (O.name(spec), gen.scale_bucket(orc.scale())), "nontrivial": True, "sig": sig,
            "events": ev, "worst": worst, "viol": viol,
            "sample": {"spec": O.describe(spec), "first_dirs": [d.tolist() for d in dirs[:3]]}}
