"""C12 - results are symmetric in the arguments and invariant under rigid motion
(and scale covariantly under uniform scaling).

Metamorphic monitor, no external truth: every base scene is executed again with
the arguments swapped, with one rigid motion applied to both arguments (shapes
rebuilt from parameters, not via update_pose) and uniformly scaled; scalars
must agree within the sum of the two runs' tolerances of the base property,
booleans must agree when the scene is outside the band, points / directions
are compared only where the optimum is unique (a strictly convex smooth shape
is involved and the shapes are separated).
"""
import numpy as np

from .. import gen, monitors, oracles as O, pairs, penscene, prims
from . import c10

ID = "C12"
PROPNUM = 12
LEVEL = "exploration"
MODES = {"quick": ["jit"] * 12 + ["bounds"] * 4, "thorough": ["jit"] * 12 + ["bounds"] * 4}
CASE_TIMEOUT_S = 180
PRIM5 = ("sphere", "capsule", "box", "ellipsoid", "cylinder")
SKIP_FN = {"disk_to_disk", "line_segment_to_circle", "point_to_ellipsoid[surface]"}
SYMMETRIC_FN = {"line_to_line", "line_segment_to_line_segment", "plane_to_plane", "triangle_to_triangle", "rectangle_to_rectangle"}
CLASS_P = {"gap": .3, "deep": .15, "overlap": .1, "lattice": .12, "feature": .1, "parallel": .08, "free": .07, "nested": .08}
RULE = ("70% collider scenes (all type pairs by index, Margin p=0.1, placement classes gap/deep/overlap/lattice/feature/"
        "parallel/free/nested) and 30% primitive scenes (the generator of C10); variants: swapped arguments, a common rigid "
        "motion (Haar rotations, signed axis permutations, quarter turns; translations up to 700 but inside the domain), a "
        "uniform scale factor in [1e-2,1e2] chosen so that all feature sizes stay inside the domain. Queries: gjk distance "
        "(d, closest points), gjk_distance_original, Nesterov distance, the four boolean tests, mpr_penetration (depth, "
        "direction), epa (|mtv|) and the primitive distance functions. non-trivial = every case; distinct = distinct scene hashes")
ASSUMPTIONS = ["tolerances: sum of the base property's tolerance for both runs (C01 1e-5 L, C09/C08 1e-3/2e-3 L, C07 1e-6 L, C10/C11 1e-6 L)",
               "known-finding mechanisms of the base properties are excluded by the same predicates (degenerate GJK simplex, grazing "
               "contact, non-tetrahedral EPA input, disk_to_disk, line_segment_to_circle, epsilon band, sliver triangles)"]
MIN_EVENTS = {"collider_scenes": 1500, "primitive_scenes": 600, "scalar_comparisons": 15000, "boolean_comparisons": 6000,
              "point_comparisons": 120}


def cases(tier):
    return 6000 if tier == "quick" else 100000


def _feature_range(spec):
    vals = []
    for k in ("r", "h", "l", "m"):
        if k in spec:
            vals.append(float(spec[k]))
    for k in ("radii", "size"):
        if k in spec:
            vals += [float(x) for x in spec[k]]
    if "V" in spec:
        V = np.asarray(spec["V"], float)
        vals.append(float(np.ptp(V, axis=0).max()))
    if "base" in spec:
        vals += _feature_range(spec["base"])
    return vals


def _pick_scale(rng, fr, centres):
    lo = 1e-2 / min(fr); hi = 1e2 / max(fr)
    cmax = max(1e-9, max(float(np.linalg.norm(c)) for c in centres))
    hi = min(hi, 900.0 / cmax)
    lo = max(lo, 1e-2); hi = min(hi, 1e2)
    if hi <= lo * 1.0001:
        return 1.0
    return float(10 ** rng.uniform(np.log10(lo), np.log10(hi)))


def _pick_motion(rng, centres):
    R = gen.rand_rot(rng, str(rng.choice(["haar", "perm", "axis", "product"], p=[.45, .25, .2, .1])))
    if rng.random() < 0.3:
        R = pairs.quarter_turn(rng)
    cmax = max(float(np.linalg.norm(c)) for c in centres)
    room = max(0.0, 900.0 - cmax)
    t = gen.rand_dir(rng) * rng.uniform(0, min(700.0, room)) if rng.random() < 0.6 else rng.integers(-3, 4, size=3).astype(float)
    return O.pose(R, t)


def run_case(rng, idx, tier):
    if idx % 10 < 7:
        return _colliders(rng, idx)
    return _primitives(rng, idx)


# --------------------------------------------------------------------------------------------
def _queries(sA, sB, want_points, objects=None):
    """executes all queries on freshly built colliders (or on the given collider objects); returns dict name -> value
    (or exception marker)"""
    from distance3d import gjk, mpr, epa
    out = {}
    A, B = objects if objects is not None else pairs.build_pair(sA, sB)
    out["_objects"] = (A, B)

    def run(name, f):
        try:
            out[name] = f()
        except Exception as e:  # noqa: BLE001
            out[name] = ("EXC", type(e).__name__)
    pa = monitors.Counted(A, record=True); pb = pa if B is A else monitors.Counted(B, record=True)
    run("gjk", lambda: gjk.gjk(pa, pb))
    g = out["gjk"]
    if not (isinstance(g, tuple) and g and g[0] == "EXC"):
        out["gjk_tetra"] = bool(g[3] is not None and monitors.simplex_is_tetrahedron(g[3], pa, pb))
        from .c01 import simplex_degeneracy
        out["gjk_degenerate"] = bool(g[3] is not None and simplex_degeneracy(g[3], pa, pb)[0] < 1e-6)
    def _orig():
        r = gjk.gjk_distance_original(A, B)
        # exact 0 with two identical closest points = the 'simplex is a tetrahedron' branch (mechanism of K24)
        out["original_tetrahedron_branch"] = bool(r[0] == 0.0 and np.array_equal(r[1], r[2]))
        return r[0]
    run("original", _orig)
    run("nesterov", lambda: gjk.gjk_nesterov_accelerated_distance(A, B))
    run("b_jolt", lambda: bool(gjk.gjk_intersection(A, B)))
    run("b_libccd", lambda: bool(gjk.gjk_intersection_libccd(A, B)))
    run("b_mpr", lambda: bool(mpr.mpr_intersection(A, B)))
    run("b_nesterov", lambda: bool(gjk.gjk_nesterov_accelerated_intersection(A, B)))
    if sA["kind"] in PRIM5 and sB["kind"] in PRIM5:
        run("primitives", lambda: gjk.gjk_nesterov_accelerated_primitives_distance(A, B))
    run("mpr_pen", lambda: mpr.mpr_penetration(A, B))
    if "gjk" in out and isinstance(out["gjk"], tuple) and out["gjk"][0] == 0.0 and out.get("gjk_tetra"):
        S = np.array(out["gjk"][3], dtype=float)
        run("epa", lambda: epa.epa(S, A, B))
    return out


def _colliders(rng, idx):
    kA = O.KINDS[idx % 10]; kB = O.KINDS[(idx // 10) % 10]
    sA, sB, cls, truth = pairs.make_pair(rng, kA, kB, margin_p=0.1, class_p=CLASS_P)
    # keep the base scene near the origin so that moved / scaled variants stay inside the domain
    oA, oB, L0 = pairs.scene(sA, sB, k=1e-5)
    shift = -oA.center() + rng.normal(size=3)
    sA = O.translated(sA, shift); sB = sA if sB is sA else O.translated(sB, shift)
    if truth.get("common") is not None:
        truth = dict(truth, common=truth["common"] + shift)
    oA, oB, L0 = pairs.scene(sA, sB, k=1e-5)
    centres = [oA.center(), oB.center()]
    G = _pick_motion(rng, centres)
    sc = _pick_scale(rng, _feature_range(sA) + _feature_range(sB), centres)
    variants = {
        "swap": (sB, sA, np.eye(4), 1.0, True),
        "moved": (O.moved(sA, G), O.moved(sB, G), G, 1.0, False),
        "scaled": (O.scaled(sA, sc), O.scaled(sB, sc), np.eye(4), sc, False),
    }
    # the same rigid motion applied the way a simulation does it: update_pose on the collider objects that have
    # already answered the base queries
    bA = sA["base"] if sA["kind"] == "margin" else sA; bB = sB["base"] if sB["kind"] == "margin" else sB
    if sB is not sA and gen.target_pose(bA) is not None and gen.target_pose(bB) is not None:
        variants["moved-by-update"] = (O.moved(sA, G), O.moved(sB, G), G, 1.0, False)
    viol = []; worst = {}
    ev = {"collider_scenes": 1, "scalar_comparisons": 0, "boolean_comparisons": 0, "point_comparisons": 0}
    names = (O.name(sA), O.name(sB))
    base = _queries(sA, sB, True)
    clear = None
    if truth["dist"] is not None and truth["dist"] >= 1.5e-3 * L0:
        clear = False
    elif truth.get("common") is not None and truth.get("depth") is not None and truth["depth"] >= 1.5e-3 * L0:
        clear = True
    unique_points = (clear is False) and any(O.base_kind(s) in ("sphere", "ellipsoid") for s in (sA, sB))
    rec = {"cls": "colliders|%s|%s|%s" % (names[0], names[1], cls), "nontrivial": True,
           "sig": repr(pairs.describe(sA, sB, cls, truth)), "sample": dict(pairs.describe(sA, sB, cls, truth), scale=sc, motion=G.tolist())}
    for vname, (vA, vB, Gv, s, swapped) in variants.items():
        if vA is vB and not (sA is sB):
            pass
        oa, ob, Lv = pairs.scene(vA, vB, k=1e-5)
        if vname == "moved-by-update":
            objs = base["_objects"]
            try:
                for ob_, sp_ in zip(objs, (vA, vB)):
                    gen.apply_pose(ob_, gen.target_pose(sp_["base"] if sp_["kind"] == "margin" else sp_), rng)
            except Exception as e:  # noqa: BLE001
                viol.append({"key": {"variant": vname, "kind": "update_pose-raised", "exc": type(e).__name__}, "err": None,
                             "msg": "update_pose raised %s: %s" % (type(e).__name__, str(e)[:160])})
                continue
            ev["moved_by_update_variants"] = ev.get("moved_by_update_variants", 0) + 1
            var = _queries(vA, vB, True, objects=objs)
        else:
            var = _queries(vA, vB, True)
        key0 = {"variant": vname, "cls": cls.split("+")[0]}

        def exc(x):
            return isinstance(x, tuple) and len(x) == 2 and x[0] == "EXC"

        def scalar(q, b, v, k_tol, extra=None):
            if exc(b) or exc(v):
                if exc(b) != exc(v):
                    viol.append({"key": dict(key0, query=q, kind="exception-in-one-variant", **(extra or {})), "err": None,
                                 "msg": "%s(%s,%s) [%s]: base %r, %s variant %r" % (q, names[0], names[1], cls, b, vname, v)})
                return
            if b is None or v is None:
                return
            ev["scalar_comparisons"] += 1
            tol = k_tol * (L0 * s + Lv)
            e = abs(float(v) - float(b) * s)
            r = e / (L0 * s + Lv)
            worst["%s %s" % (q, vname)] = max(worst.get("%s %s" % (q, vname), 0.0), r / k_tol if (extra or {}).get("_count", True) else 0.0)
            if not e <= tol:
                viol.append({"key": dict(key0, query=q, kind="scalar-differs", **{a: c for a, c in (extra or {}).items() if not a.startswith("_")}),
                             "err": float(r), "msg": "%s(%s,%s) [%s]: base %.9g (x scale %.4g = %.9g), %s variant %.9g: differs by %.3g of (L+L')" % (
                                 q, names[0], names[1], cls, float(b), s, float(b) * s, vname, float(v), r)})

        gb, gv = base["gjk"], var["gjk"]
        deg = bool(base.get("gjk_degenerate") or var.get("gjk_degenerate"))
        from distance3d.utils import MAX_FLOAT
        if not exc(gb) and not exc(gv):
            clipped = gb[0] == MAX_FLOAT or gv[0] == MAX_FLOAT
            if not clipped:
                graz = bool(min(gb[0], gv[0] / max(s, 1e-300)) <= 1e-6 * L0)
                scalar("gjk.distance", gb[0], gv[0], 1e-5, {"degenerate_simplex": deg, "grazing": graz, "_count": not deg})
                if unique_points and gb[0] > 1e-3 * L0 and not deg:
                    a0, b0 = np.asarray(gb[1], float), np.asarray(gb[2], float)
                    a1, b1 = np.asarray(gv[1], float), np.asarray(gv[2], float)
                    if swapped:
                        a1, b1 = b1, a1
                    ta = s * (Gv[:3, :3] @ a0 + Gv[:3, 3]); tb = s * (Gv[:3, :3] @ b0 + Gv[:3, 3])
                    e = max(float(np.linalg.norm(a1 - ta)), float(np.linalg.norm(b1 - tb))) / (L0 * s + Lv)
                    ev["point_comparisons"] += 1
                    worst["closest points %s" % vname] = max(worst.get("closest points %s" % vname, 0.0), e)
                    if e > 1e-3:
                        viol.append({"key": dict(key0, query="gjk.points", kind="points-do-not-follow"), "err": e,
                                     "msg": "gjk(%s,%s) [%s]: closest points of the %s variant differ from the transformed base points by %.3g of (L+L')" % (
                                         names[0], names[1], cls, vname, e)})
        elif exc(gb) != exc(gv):
            viol.append({"key": dict(key0, query="gjk", kind="exception-in-one-variant"), "err": None, "msg": "gjk: base %r variant %r" % (gb if exc(gb) else "ok", gv if exc(gv) else "ok")})
        asp = O.aspect_bucket(max(O.aspect(sA), O.aspect(sB)))
        zero_one = (not exc(base["original"]) and not exc(var["original"]) and (base["original"] == 0.0) != (var["original"] == 0.0))
        scalar("original.distance", base["original"], var["original"], 1e-3, {"max_aspect": asp, "zero_in_one_variant": bool(zero_one),
                "tetrahedron_branch_in_one_variant": bool(base.get("original_tetrahedron_branch", False) != var.get("original_tetrahedron_branch", False))})
        scalar("nesterov.distance", base["nesterov"], var["nesterov"], 1e-3)
        if "primitives" in base and "primitives" in var:
            scalar("primitives.distance", base["primitives"], var["primitives"], 1e-3)
        if clear is not None:
            for q in ("b_jolt", "b_libccd", "b_mpr", "b_nesterov"):
                b, v = base[q], var[q]
                if exc(b) or exc(v):
                    if exc(b) != exc(v) and not (q == "b_libccd" and "ZeroDivisionError" in (b if exc(b) else v)):
                        viol.append({"key": dict(key0, query=q, kind="exception-in-one-variant"), "err": None, "msg": "%s: base %r variant %r" % (q, b, v)})
                    continue
                ev["boolean_comparisons"] += 1
                if b != v:
                    viol.append({"key": dict(key0, query=q, kind="boolean-differs"), "err": None,
                                 "msg": "%s(%s,%s) [%s]: base %s, %s variant %s (scene is clearly %s)" % (
                                     q, names[0], names[1], cls, b, vname, v, "overlapping" if clear else "separated")})
        mb, mv = base["mpr_pen"], var["mpr_pen"]
        if not exc(mb) and not exc(mv) and mb[0] and mv[0] and clear is True:
            scalar("mpr.depth", mb[1], mv[1], 2e-3)
        eb, evv = base.get("epa"), var.get("epa")
        if eb is not None and evv is not None and not exc(eb) and not exc(evv) and eb[2] and evv[2] \
                and O.base_kind(sA) in penscene.POLY and O.base_kind(sB) in penscene.POLY and sA["kind"] != "margin" and sB["kind"] != "margin":
            scalar("epa.|mtv|", float(np.linalg.norm(eb[0])), float(np.linalg.norm(evv[0])), 1e-6)
    rec.update(events=ev, viol=viol, worst=worst)
    return rec


# --------------------------------------------------------------------------------------------
def _primitives(rng, idx):
    # primitive cases are idx % 10 in {7, 8, 9}: number them consecutively so that every function is visited
    name, fname, kwargs, sc_, p1, p2 = c10.make_case(rng, (idx // 10) * 3 + (idx % 10) - 7)
    viol = []; worst = {}
    ev = {"primitive_scenes": 1, "scalar_comparisons": 0, "boolean_comparisons": 0, "point_comparisons": 0}
    rec = {"cls": "primitives|%s" % name, "nontrivial": True, "sig": repr((name, p1.describe(), p2.describe())),
           "sample": {"fn": name, "p1": p1.describe(), "p2": p2.describe()}}
    if name in SKIP_FN or prims.has_sliver(p1, p2) or prims.in_band(p1, p2):
        rec.update(events=ev, viol=viol, worst=worst, inconcl=["function / configuration excluded (known-finding mechanism or epsilon band)"])
        return rec
    if p1.kind == "point" and p2.convex and p2.bounded and rng.random() < 0.25:
        # query point inside / on the second primitive (distance 0): its projection is the point itself
        p1 = prims.rebuild("point", (prims.some_point_of(p2, rng),))
    # bring the scene near the origin
    c = p1.orc.center()
    p1 = prims.translated(p1, -c); p2 = prims.translated(p2, -c)
    L0 = prims.pair_L(p1, p2)
    centres = [p1.orc.center(), p2.orc.center()]
    G = _pick_motion(rng, centres)
    # every feature size (each radius, edge, side) of the scaled scene stays inside the primitive domain [0.2, 1e2]
    fr = [x for p in (p1, p2) for x in prims.feature_sizes(p) if x > 0] or [1.0]
    s = _pick_scale(rng, [max(0.2, min(fr))] + [max(fr)], centres)
    s = float(min(max(s, 0.2 / max(0.2, min(fr))), 100.0 / max(fr))) if max(fr) > 0 else 1.0
    tol_k = 5e-3 if name == "line_to_circle" else 1e-6
    try:
        base = prims.call(fname, p1, p2, kwargs)
    except Exception as e:  # noqa: BLE001
        rec.update(events=ev, viol=viol, worst=worst, inconcl=["base call raised %s (C10's business)" % type(e).__name__])
        return rec
    variants = [("moved", prims.transformed(p1, G), prims.transformed(p2, G), 1.0, False),
                ("scaled", prims.transformed(p1, None, s), prims.transformed(p2, None, s), s, False)]
    if name in SYMMETRIC_FN:
        variants.append(("swap", p2, p1, 1.0, True))
    for vname, q1, q2, f, swapped in variants:
        if prims.in_band(q1, q2):
            continue
        try:
            res = prims.call(fname, q1, q2, kwargs)
        except Exception as e:  # noqa: BLE001
            viol.append({"key": {"variant": vname, "query": name, "kind": "exception-in-one-variant", "exc": type(e).__name__}, "err": None,
                         "msg": "%s: %s variant raised %s: %s" % (name, vname, type(e).__name__, str(e)[:160])})
            continue
        Lv = prims.pair_L(q1, q2)
        ev["scalar_comparisons"] += 1
        e = abs(float(res[0]) - float(base[0]) * f) / (L0 * f + Lv)
        worst["%s %s" % (name, vname)] = e / tol_k
        if not e <= tol_k:
            viol.append({"key": {"variant": vname, "query": name, "kind": "scalar-differs"}, "err": float(e),
                         "msg": "%s: base d=%.9g (x %.4g), %s variant d=%.9g: differs by %.3g of (L+L')" % (name, float(base[0]), f, vname, float(res[0]), e)})
        # returned points move with the scene where the optimum is unique: the projection of a point on a convex
        # primitive always is (also for points inside it); other pairs only in generic placements
        convex2 = bool(p2.convex() if callable(getattr(p2, "convex", None)) else getattr(p2, "convex", True))
        # (two extended primitives that intersect or are parallel share many optimal pairs: need d > 0 and a bounded one)
        unique = (p1.kind == "point" and convex2) or (
            not sc_.structured and not sc_.contact and float(base[0]) > 1e-6 * L0 and (p1.bounded or p2.bounded)
            and not prims.in_band(p1, p2, -1.0, 1e-2))     # no (nearly or exactly) parallel / perpendicular directions
        if unique and not swapped and name != "line_to_circle":
            Gm = G if vname == "moved" else np.eye(4)
            pb_ = [np.asarray(x, float) for x in base[1:3] if isinstance(x, np.ndarray) and np.shape(x) == (3,)]
            pv_ = [np.asarray(x, float) for x in res[1:3] if isinstance(x, np.ndarray) and np.shape(x) == (3,)]
            if len(pb_) == len(pv_) and pb_:
                ev["point_comparisons"] += 1
                ep = max(float(np.linalg.norm(b_ - f * (Gm[:3, :3] @ a_ + Gm[:3, 3]))) for a_, b_ in zip(pb_, pv_)) / (L0 * f + Lv)
                worst["%s points %s" % (name, vname)] = ep / 1e-6
                if not ep <= 1e-6:
                    viol.append({"key": {"variant": vname, "query": name, "kind": "points-do-not-follow"}, "err": float(ep),
                                 "msg": "%s: the returned points of the %s variant are %.3g*(L+L') away from the transformed base points" % (name, vname, ep)})
    rec.update(events=ev, viol=viol, worst=worst)
    return rec
