"""C05 - AABB tree answers overlap queries exactly, for every insertion history.

Monitors:
 * executable model: a plain list of (box, payload); every query result must
   equal the brute-force closed-interval filter as a multiset of payloads;
 * class invariant attached to the real AabbTree with icontract (checked after
   every public method): exactly one root, mutually consistent parent/child
   links, every inserted leaf reachable exactly once, every branch box equal to
   the union of its children, list lengths == filled_len, 2n-1 nodes;
 * crash containment: each shard is a child with faulthandler (a segfault in a
   compiled traversal is a recorded violation), 4 of 16 shards run under
   NUMBA_BOUNDSCHECK=1.
"""
import numpy as np

ID = "C05"
PROPNUM = 5
LEVEL = "exploration"
MODES = {"quick": ["jit"] * 12 + ["bounds"] * 4, "thorough": ["jit"] * 12 + ["bounds"] * 4}
TIMEOUT_IS_VIOLATION = True   # "queries terminate"
CASE_TIMEOUT_S = 120
HANG_S = 150
RULE = ("one case = one history: 0-6 insertion batches (sizes 0,1,2,3,5,8,20,100; modes none/sort/shuffle via insert_aabbs or "
        "single insert_aabb; with/without external data) of boxes from hostile families (random, integer lattice with touching "
        "faces/edges/corners, zero-volume, nested, duplicates, huge/tiny mix), then 6-14 queries: random boxes, lattice boxes, "
        "point boxes, the inserted boxes themselves, a second tree with its own history, the tree against itself, an empty "
        "tree, and the all-enclosing box. Thorough additionally enumerates all 4^3 mode sequences x sizes<=3. "
        "non-trivial = history has >=2 batches or a degenerate box family; distinct = distinct (history, queries) hashes")
ASSUMPTIONS = ["overlap is the closed-interval test on all three axes (property text)",
               "payload identity is compared through unique integer payloads"]
MIN_EVENTS = {"queries_box": 5000, "queries_tree": 1500, "invariant_evaluations": 5000, "empty_tree_queries": 300}

MODES_INS = ["none", "sort", "shuffle", "single"]
_inv_count = [0]
_Tree = [None]


class InvariantBroken(Exception):
    pass


def _check_invariant(self):
    """structural invariant of the real tree, from public attributes only"""
    _inv_count[0] += 1
    n_nodes = self.filled_len
    nodes = np.asarray(self.nodes); aabbs = np.asarray(self.aabbs)
    if len(nodes) != n_nodes or len(aabbs) != n_nodes:
        raise InvariantBroken("len(nodes)=%d len(aabbs)=%d filled_len=%d" % (len(nodes), len(aabbs), n_nodes))
    if len(self.external_data_list) != n_nodes:
        raise InvariantBroken("len(external_data_list)=%d filled_len=%d" % (len(self.external_data_list), n_nodes))
    if n_nodes == 0:
        if self.root != -1:
            raise InvariantBroken("empty tree with root %r" % (self.root,))
        return True
    root = int(self.root)
    if not (0 <= root < n_nodes) or nodes[root, 0] != -1:
        raise InvariantBroken("bad root %d (parent %s)" % (root, nodes[root, 0] if 0 <= root < n_nodes else "?"))
    seen = set(); leaves = 0; stack = [root]
    while stack:
        i = stack.pop()
        if i in seen:
            raise InvariantBroken("node %d reachable twice" % i)
        seen.add(i)
        typ = nodes[i, 3]
        if typ == 1:
            leaves += 1
        elif typ == 2:
            l, r = int(nodes[i, 1]), int(nodes[i, 2])
            if not (0 <= l < n_nodes and 0 <= r < n_nodes):
                raise InvariantBroken("branch %d has child out of range (%d,%d)" % (i, l, r))
            if nodes[l, 0] != i or nodes[r, 0] != i:
                raise InvariantBroken("child of %d does not point back (%d,%d)" % (i, nodes[l, 0], nodes[r, 0]))
            u = np.c_[np.minimum(aabbs[l, :, 0], aabbs[r, :, 0]), np.maximum(aabbs[l, :, 1], aabbs[r, :, 1])]
            if not np.array_equal(u, aabbs[i]):
                raise InvariantBroken("branch %d box is not the union of its children" % i)
            stack += [l, r]
        else:
            raise InvariantBroken("node %d has type %r" % (i, typ))
    if len(seen) != n_nodes:
        raise InvariantBroken("%d of %d nodes reachable from the root" % (len(seen), n_nodes))
    if n_nodes != 2 * leaves - 1:
        raise InvariantBroken("%d nodes for %d leaves" % (n_nodes, leaves))
    return True


def setup(tier):
    import icontract
    from distance3d import aabb_tree
    T = icontract.invariant(_check_invariant, error=InvariantBroken)(aabb_tree.AabbTree)
    _Tree[0] = T


def cases(tier):
    return 2000 if tier == "quick" else 50000 + 64 * 27


# ---------------------------------------------------------------------------
def _boxes(rng, n, family):
    if n == 0:
        return np.empty((0, 3, 2))
    if family == "random":
        lo = rng.uniform(-5, 5, size=(n, 3)); ext = rng.uniform(0.05, 3, size=(n, 3))
    elif family == "lattice":
        lo = rng.integers(-3, 4, size=(n, 3)).astype(float); ext = rng.integers(0, 3, size=(n, 3)).astype(float)
    elif family == "flat":
        lo = rng.integers(-2, 3, size=(n, 3)).astype(float); ext = rng.integers(0, 2, size=(n, 3)).astype(float)
        ext[np.arange(n), rng.integers(0, 3, size=n)] = 0.0
    elif family == "nested":
        c = rng.uniform(-1, 1, size=3); r = np.sort(rng.uniform(0.01, 5, size=n))
        lo = c - r[:, None]; ext = 2 * r[:, None] * np.ones((n, 3))
    elif family == "dup":
        k = max(1, n // 3)
        lo0 = rng.integers(-2, 3, size=(k, 3)).astype(float); e0 = rng.integers(0, 3, size=(k, 3)).astype(float)
        pick = rng.integers(0, k, size=n)
        lo = lo0[pick]; ext = e0[pick]
    else:  # mixed scale
        lo = rng.normal(size=(n, 3)) * 10 ** rng.uniform(-3, 3, size=(n, 1))
        ext = 10 ** rng.uniform(-6, 3, size=(n, 3))
    return np.ascontiguousarray(np.stack([lo, lo + ext], axis=2))


FAMILIES = ["random", "lattice", "flat", "nested", "dup", "mixed"]


def _overlap(a, b):
    return bool(a[0, 0] <= b[0, 1] and a[0, 1] >= b[0, 0] and a[1, 0] <= b[1, 1] and a[1, 1] >= b[1, 0]
                and a[2, 0] <= b[2, 1] and a[2, 1] >= b[2, 0])


class Hist:
    """a tree under test + its model"""
    def __init__(self):
        self.tree = _Tree[0]()
        self.model = []     # (box, payload)
        self.ops = []

    def insert(self, rng, boxes, mode, with_data, next_payload):
        n = len(boxes)
        data = list(range(next_payload, next_payload + n))
        # boxes as other numpy dtypes (a later batch of integer coordinates as an int array, a float32 batch): the boxes
        # that were inserted are the values of that array, earlier batches must keep their float64 values
        dt = "float64"
        if n and rng.random() < 0.12:
            if np.all(boxes == np.round(boxes)) and np.abs(boxes).max() < 2 ** 31:
                dt = str(rng.choice(["int64", "int32"]))
            else:
                dt = "float32"
            boxes = np.ascontiguousarray(boxes.astype(dt))
        self.ops.append({"op": "insert", "mode": mode, "n": n, "data": bool(with_data), "dtype": dt})
        if mode == "single":
            for b, d in zip(boxes, data):
                if with_data:
                    self.tree.insert_aabb(b, d)
                else:
                    self.tree.insert_aabb(b)
        else:
            if with_data:
                self.tree.insert_aabbs(boxes, data, pre_insertion_methode=mode)
            else:
                self.tree.insert_aabbs(boxes, pre_insertion_methode=mode)
        for b, d in zip(boxes, data):
            self.model.append((np.array(b, dtype=float), d if with_data else None))
        return next_payload + n


def _payloads(tree, idxs):
    return [tree.external_data_list[int(i)] for i in idxs]


def _exhaustive_plan(k):
    """k-th of the 64*27 exhaustive (mode sequence, sizes) combinations"""
    m, s = divmod(k, 27)
    modes = [MODES_INS[(m // 16) % 4], MODES_INS[(m // 4) % 4], MODES_INS[m % 4]]
    sizes = [1 + (s // 9) % 3, 1 + (s // 3) % 3, 1 + s % 3]
    return modes, sizes


def run_case(rng, idx, tier):
    viol = []
    ev = {"queries_box": 0, "queries_tree": 0, "empty_tree_queries": 0, "batches": 0, "sort_after_first": 0}
    inv0 = _inv_count[0]
    n_random = 2000 if tier == "quick" else 50000
    fam = str(rng.choice(FAMILIES))
    if idx >= n_random:
        modes, sizes = _exhaustive_plan(idx - n_random)
        plan = list(zip(modes, sizes)); cls = "exhaustive-modes"
    else:
        nb = int(rng.choice([0, 1, 2, 3, 4, 6], p=[.06, .2, .3, .24, .12, .08]))
        plan = [(str(rng.choice(MODES_INS)), int(rng.choice([0, 1, 2, 3, 5, 8, 20, 100], p=[.08, .14, .14, .14, .16, .14, .14, .06])))
                for _ in range(nb)]
        cls = "batches=%d|%s" % (nb, fam)
    with_data = bool(rng.random() < 0.7)
    H = Hist(); nxt = 0
    key_base = {"family": fam}

    def fail(kind, msg, extra=None):
        k = dict(key_base, kind=kind)
        if extra:
            k.update(extra)
        viol.append({"key": k, "err": None, "msg": msg})

    try:
        for bi, (mode, n) in enumerate(plan):
            boxes = _boxes(rng, n, fam if rng.random() < 0.8 else str(rng.choice(FAMILIES)))
            if mode == "sort" and bi > 0 and len(H.model) > 0:
                ev["sort_after_first"] += 1
            nxt = H.insert(rng, boxes, mode, with_data, nxt)
            ev["batches"] += 1
    except InvariantBroken as e:
        fail("invariant", "class invariant broken after %s: %s" % (H.ops[-1], e), {"mode": H.ops[-1]["mode"]})
        return _rec(cls, plan, viol, ev, inv0, H, fam)
    except Exception as e:  # noqa: BLE001
        fail("insert-exception", "insert raised %s: %s (ops %s)" % (type(e).__name__, str(e)[:200], H.ops[-3:]),
             {"exc": type(e).__name__, "mode": H.ops[-1]["mode"] if H.ops else None})
        return _rec(cls, plan, viol, ev, inv0, H, fam)
    tree = H.tree; model = H.model
    # --- box queries
    qs = []
    nq = int(rng.integers(4, 9))
    for _ in range(nq):
        qs.append(_boxes(rng, 1, str(rng.choice(FAMILIES)))[0])
    if model:
        for _ in range(3):
            qs.append(model[int(rng.integers(len(model)))][0].copy())
        p = model[int(rng.integers(len(model)))][0][:, int(rng.integers(2))]
        qs.append(np.ascontiguousarray(np.stack([p, p], axis=1)))      # corner point box
    qs.append(np.array([[-1e9, 1e9]] * 3))
    for q in qs:
        try:
            hit, idxs = tree.overlaps_aabb(np.ascontiguousarray(q))
        except Exception as e:  # noqa: BLE001
            fail("query-exception", "overlaps_aabb raised %s: %s" % (type(e).__name__, str(e)[:200]),
                 {"exc": type(e).__name__, "empty": len(model) == 0})
            continue
        ev["queries_box"] += 1
        if not model:
            ev["empty_tree_queries"] += 1
        exp = sorted(i for i, (b, _) in enumerate(model) if _overlap(b, q))
        idxs = [int(i) for i in np.asarray(idxs).ravel()]
        # compare boxes + payloads (tree indices need not equal model indices)
        got = sorted((tuple(np.asarray(tree.aabbs[i]).ravel()), tree.external_data_list[i]) for i in idxs
                     if 0 <= i < len(tree.aabbs))
        want = sorted((tuple(model[i][0].ravel()), model[i][1]) for i in exp)
        if len(idxs) != len(got):
            fail("index-out-of-range", "overlaps_aabb returned indices outside the tree: %s" % idxs[:10])
        elif got != want or bool(hit) != (len(want) > 0):
            missing = len([w for w in want if w not in got]); spurious = len([g for g in got if g not in want])
            dup = len(got) - len(set(got)) if len(set(want)) == len(want) else 0
            fail("wrong-box-query", "overlaps_aabb: %d missing, %d spurious, %d duplicated of %d expected (flag %s); history %s" % (
                missing, spurious, dup, len(want), hit, H.ops),
                {"missing": missing > 0, "spurious": spurious > 0})
    # --- tree queries
    others = []
    H2 = Hist()
    try:
        nxt2 = 10 ** 6
        for _ in range(int(rng.integers(0, 3))):
            nxt2 = H2.insert(rng, _boxes(rng, int(rng.choice([1, 2, 5, 20])), str(rng.choice(FAMILIES))),
                             str(rng.choice(MODES_INS)), True, nxt2)
        others.append(("other", H2))
    except InvariantBroken as e:
        fail("invariant", "class invariant broken (second tree) after %s: %s" % (H2.ops[-1], e), {"mode": H2.ops[-1]["mode"]})
    except Exception as e:  # noqa: BLE001
        fail("insert-exception", "insert (second tree) raised %s: %s" % (type(e).__name__, str(e)[:200]),
             {"exc": type(e).__name__, "mode": H2.ops[-1]["mode"] if H2.ops else None})
    others.append(("self", H))
    others.append(("empty", Hist()))
    for nm, Ho in others:
        for a, b, an in ((H, Ho, nm), (Ho, H, nm + "-rev")):
            if nm == "self" and an.endswith("-rev"):
                continue
            try:
                hit, ia, ib, pairs = a.tree.overlaps_aabb_tree(b.tree)
            except Exception as e:  # noqa: BLE001
                fail("query-exception", "overlaps_aabb_tree(%s) raised %s: %s" % (an, type(e).__name__, str(e)[:200]),
                     {"exc": type(e).__name__, "empty": len(a.model) == 0 or len(b.model) == 0})
                continue
            ev["queries_tree"] += 1
            if not a.model or not b.model:
                ev["empty_tree_queries"] += 1
            want = sorted(((tuple(x.ravel()), dx), (tuple(y.ravel()), dy)) for (x, dx) in a.model for (y, dy) in b.model
                          if _overlap(x, y))
            try:
                got = sorted(((tuple(np.asarray(a.tree.aabbs[int(i)]).ravel()), a.tree.external_data_list[int(i)]),
                              (tuple(np.asarray(b.tree.aabbs[int(j)]).ravel()), b.tree.external_data_list[int(j)])) for i, j in pairs)
            except Exception as e:  # noqa: BLE001
                fail("index-out-of-range", "overlaps_aabb_tree returned unusable pairs: %s" % type(e).__name__)
                continue
            ua = sorted(set(int(i) for i, _ in pairs)); ub = sorted(set(int(j) for _, j in pairs))
            if got != want or bool(hit) != (len(want) > 0):
                missing = len([w for w in want if w not in got]); spurious = len([g for g in got if g not in want])
                fail("wrong-tree-query", "overlaps_aabb_tree(%s): %d missing, %d spurious of %d expected pairs (got %d, flag %s)" % (
                    an, missing, spurious, len(want), len(got), hit), {"missing": missing > 0, "spurious": spurious > 0})
            elif sorted(int(i) for i in np.asarray(ia).ravel()) != ua or sorted(int(j) for j in np.asarray(ib).ravel()) != ub:
                fail("wrong-unique-lists", "overlap_self/overlap_other are not the unique first/second elements of the pairs")
    # --- root box
    if model:
        try:
            rb = np.asarray(tree.get_root_aabb(), float)
            allb = np.array([b for b, _ in model])
            exp = np.c_[allb[:, :, 0].min(axis=0), allb[:, :, 1].max(axis=0)]
            if not np.array_equal(rb, exp):
                fail("wrong-root-aabb", "get_root_aabb %s != union of all boxes %s" % (rb.tolist(), exp.tolist()))
        except Exception as e:  # noqa: BLE001
            fail("query-exception", "get_root_aabb raised %s" % type(e).__name__, {"exc": type(e).__name__, "empty": False})
    return _rec(cls, plan, viol, ev, inv0, H, fam)


def _rec(cls, plan, viol, ev, inv0, H, fam):
    ev["invariant_evaluations"] = _inv_count[0] - inv0
    nontrivial = len(plan) >= 2 or fam != "random"
    return {"cls": cls, "nontrivial": nontrivial, "sig": repr((H.ops, [m[0].tolist() for m in H.model[:3]])),
            "events": ev, "viol": viol,
            "sample": {"history": H.ops, "first_boxes": [m[0].tolist() for m in H.model[:2]], "family": fam}}
