"""C11 - primitive distance functions return the global minimum distance.

d - d_ref <= 1e-6*L (5e-3*L for the bisection-based line_to_circle), where d_ref
is the true minimum: closed forms (point/plane/line cases), support values
(plane vs convex), 1-D ternary search of the exact point distance along a line
(line vs convex), the reference solver's feasible pair (bounded convex pairs),
exhaustive sampling + golden-section refinement (circle). Inputs whose
characteristic directions are nearly-but-not-exactly parallel/perpendicular
(|cos| or |sin| strictly inside (0,1e-2)) are executed but not judged (the
functions' documented epsilon band).
"""
import numpy as np

from .. import prims
from . import c10

ID = "C11"
PROPNUM = 11
LEVEL = "exploration"
TOL = 1e-6
TOL_L2C = 5e-3
MODES = {"quick": ["jit"] * 12 + ["bounds"] * 4, "thorough": ["jit"] * 12 + ["bounds"] * 4}
CASE_TIMEOUT_S = 180
NAMES = c10.NAMES
RULE = ("same generator as C10 (shared frame, half-size lattice, 80% structured scenes, sizes 0.2..100), one function call per "
        "case, all 34 functions (+ the distance_to_surface variant) in turn; judged: returned d against the reference minimum "
        "d_ref (closed form / support values / ternary search / feasible pair of the reference solver / sampled circle), "
        "violation when d > d_ref + 1e-6 L (5e-3 L for line_to_circle). Cases inside the epsilon band are executed, counted and "
        "not judged. non-trivial = structured scene; distinct = distinct (function, arguments) hashes")
ASSUMPTIONS = ["reference minima: see verif/prims.py:reference (every reference value is attained by a feasible pair or is a closed form)",
               "band: |cos| or |sin| between characteristic directions strictly inside (0, 1e-2) => not judged"]
MIN_EVENTS = {"judged": 8000, "functions_judged": 34}
MAX_INCONCLUSIVE_FRACTION = 0.2
_seen = set()


def cases(tier):
    return 1000 * len(NAMES) if tier == "quick" else 10000 * len(NAMES)


def setup(tier):
    c10.setup(tier)


def run_case(rng, idx, tier):
    name, fname, kwargs, sc, p1, p2 = c10.make_case(rng, idx)
    L = prims.pair_L(p1, p2)
    viol = []; worst = {}; inconcl = []
    ev = {"judged": 0, "in_band": 0}
    band = prims.in_band(p1, p2)
    rec = {"cls": "%s|%s%s" % (name, "structured" if sc.structured else "generic", "|contact" if sc.contact else ""),
           "nontrivial": sc.structured or sc.contact,
           "sig": repr((name, p1.describe(), p2.describe())),
           "sample": {"fn": name, "kwargs": kwargs, "p1": p1.describe(), "p2": p2.describe()}}
    try:
        res = prims.call(fname, p1, p2, kwargs)
        d = float(res[0])
    except Exception:  # noqa: BLE001   (exceptions are C10's business)
        rec.update(events=ev, viol=[], inconcl=["function raised (judged by C10)"])
        return rec
    if band:
        ev["in_band"] += 1
        rec.update(events=ev, viol=[], inconcl=["inside the documented epsilon band: not judged"])
        return rec
    try:
        dref, how = prims.reference(p1, p2, L)
    except Exception as e:  # noqa: BLE001
        dref, how = None, "oracle-error:" + type(e).__name__
    if dref is None:
        rec.update(events=ev, viol=[], inconcl=["no reference (%s)" % how])
        return rec
    ev["judged"] += 1
    if name not in _seen:
        _seen.add(name); ev["functions_judged"] = 1
    tol = TOL_L2C if name in ("line_to_circle", "line_segment_to_circle") else TOL
    if how == "sampled":
        tol = max(tol, 1e-6)
    over = (d - dref) / L
    worst["d - d_ref /L:" + name] = over
    if not np.isfinite(d) or over > tol:
        endpoint = None
        if name == "line_segment_to_circle":
            q = np.asarray(res[1], float)
            endpoint = bool(np.array_equal(q, p1.args[0]) or np.array_equal(q, p1.args[1]))
        ipp = None
        if p2.kind in ("ellipsoid", "ellipsoid_surface") and p1.kind == "point":
            so = p2.orc.solid if p2.kind == "ellipsoid_surface" else p2.orc
            ql = so.loc(np.asarray(p1.args[0], float))
            ipp = bool(np.sum((ql / so.e) ** 2) < 1.0 and np.min(np.abs(ql)) <= 1e-9 * max(1.0, float(so.e.max())))
        viol.append({"key": {"fn": name, "kind": "not-the-minimum", "returned_segment_point_is_endpoint": endpoint,
                             "sliver_triangle": prims.has_sliver(p1, p2), "interior_point_on_principal_plane": ipp},
                     "err": float(over),
                     "msg": "%s returned d=%.9g but a pair of points at distance %.9g exists (excess %.3g*L, reference: %s)" % (
                         name, d, dref, over, how)})
    rec.update(events=ev, viol=viol, worst=worst, inconcl=inconcl)
    return rec
