"""C04 - collider AABBs enclose the shape and are tight on every axis.

Monitors: (a) collider.aabb() and the free functions of distance3d.containment
against per-axis support values of the oracle (enclosure and tightness in one
comparison); (b) Margin adds exactly its margin; (c) consequence clause: pairs
with a certified common point must have overlapping boxes (closed intervals);
(d) hydroelastic RigidBody.aabb() must bound the world-frame vertices.
"""
import numpy as np

from .. import gen, oracles as O

ID = "C04"
PROPNUM = 4
LEVEL = "exploration"
TOL = 1e-9
NEED_STUB = True
MODES = {"quick": ["jit"] * 12 + ["bounds"] * 4, "thorough": ["jit"] * 12 + ["bounds"] * 4}
RULE = ("one case = one collider spec (10 types + Margin, all rotation classes incl. tiny (1e-9..1e-3 rad) and product "
        "rotations, sizes over [1e-2,1e2], centres up to 800 from the origin): aabb() and the matching containment.*_aabb "
        "function are compared per axis and side with the oracle's support values h(+-e_i) (|diff|<=1e-9L, finite); every 4th "
        "case additionally builds a second collider with a certified common point and requires overlapping boxes; every 10th "
        "case builds a hydroelastic RigidBody at a random pose and compares aabb() with the world-frame vertex bounds. "
        "non-trivial = rotation is not the identity or the shape is not a sphere; distinct = distinct spec hashes")
ASSUMPTIONS = ["oracle support values (closed forms) are correct",
               "RigidBody.aabb() is specified in the world frame (property text)"]
MIN_EVENTS = {"aabb_calls": 2000, "free_fn_calls": 1500, "pair_overlap_checks": 100, "rigid_body_checks": 50, "aabb_after_update_pose": 300}
CASE_TIMEOUT_S = 120


def cases(tier):
    return 5000 if tier == "quick" else 100000


def _axis_aligned(R):
    A = np.abs(np.asarray(R))
    return bool(np.all((A < 1e-15) | (np.abs(A - 1) < 1e-15)))


def _rot_of(spec):
    b = spec["base"] if spec["kind"] == "margin" else spec
    if "T" in b:
        return np.asarray(b["T"])[:3, :3]
    if b["kind"] == "disk":
        n = np.asarray(b["n"])
        return np.column_stack([n, n, n])
    if b["kind"] == "ellipse":
        A = np.asarray(b["axes"])
        return np.column_stack([A[0], A[1], np.cross(A[0], A[1])])
    return np.eye(3)


def oracle_aabb(o):
    E = np.eye(3)
    return np.array([[-o.h(-E[i]), o.h(E[i])] for i in range(3)])


def _free_fn(spec):
    from distance3d import containment as K
    k = spec["kind"]
    f = lambda a: np.array(a, dtype=float, order="C")  # noqa: E731
    if k == "sphere":
        return "sphere_aabb", lambda: K.sphere_aabb(f(spec["c"]), spec["r"])
    if k == "box":
        return "box_aabb", lambda: K.box_aabb(f(spec["T"]), f(spec["size"]))
    if k == "cylinder":
        return "cylinder_aabb", lambda: K.cylinder_aabb(f(spec["T"]), spec["r"], spec["l"])
    if k == "capsule":
        return "capsule_aabb", lambda: K.capsule_aabb(f(spec["T"]), spec["r"], spec["h"])
    if k == "ellipsoid":
        return "ellipsoid_aabb", lambda: K.ellipsoid_aabb(f(spec["T"]), f(spec["radii"]))
    if k == "disk":
        return "disk_aabb", lambda: K.disk_aabb(f(spec["c"]), spec["r"], f(spec["n"]))
    if k == "cone":
        return "cone_aabb", lambda: K.cone_aabb(f(spec["T"]), spec["r"], spec["h"])
    if k == "ellipse":
        return "ellipse_aabb", lambda: K.ellipse_aabb(f(spec["c"]), f(spec["axes"]), f(spec["radii"]))
    if k == "hull":
        return "axis_aligned_bounding_box", lambda: K.axis_aligned_bounding_box(f(spec["V"]))
    return None, None


def _judge_box(box, ref, L, key, viol, worst, what):
    box = np.asarray(box, float)
    if box.shape != (3, 2) or not np.all(np.isfinite(box)):
        viol.append({"key": dict(key, kind="non-finite-or-shape"), "err": None,
                     "msg": "%s returned %s" % (what, np.array2string(box, precision=6))})
        return
    diff = (box - ref) / L
    # too small: lo > ref_lo or hi < ref_hi
    small = max(float(np.max(diff[:, 0])), float(np.max(-diff[:, 1])), 0.0)
    large = max(float(np.max(-diff[:, 0])), float(np.max(diff[:, 1])), 0.0)
    worst["too_small/L"] = max(worst.get("too_small/L", 0.0), small if key.get("_known_blind") is None else 0.0)
    worst["too_large/L"] = max(worst.get("too_large/L", 0.0), large if key.get("_known_blind") is None else 0.0)
    k = {a: b for a, b in key.items() if not a.startswith("_")}
    if small > TOL:
        viol.append({"key": dict(k, kind="does-not-enclose"), "err": small,
                     "msg": "%s misses the shape by %.3g*L (box %s, oracle %s)" % (what, small, box.tolist(), ref.tolist())})
    if large > TOL:
        viol.append({"key": dict(k, kind="not-tight"), "err": large,
                     "msg": "%s is larger than the shape by %.3g*L (box %s, oracle %s)" % (what, large, box.tolist(), ref.tolist())})


def _overlap(a, b):
    return bool(np.all(a[:, 0] <= b[:, 1]) and np.all(a[:, 1] >= b[:, 0]))


def run_case(rng, idx, tier):
    viol = []; worst = {}
    ev = {"aabb_calls": 0, "free_fn_calls": 0, "pair_overlap_checks": 0, "rigid_body_checks": 0, "margin_delta_checks": 0}
    spec = gen.rand_spec(rng, margin_p=0.2)
    kind = O.base_kind(spec)
    o = O.oracle(spec)
    L = O.scene_L([o])
    R = _rot_of(spec)
    key = {"shape": kind, "margin": spec["kind"] == "margin", "rot_axis_aligned": _axis_aligned(R)}
    if kind == "ellipsoid" and not key["rot_axis_aligned"]:
        key["_known_blind"] = True
    col = gen.build(spec)
    ref = oracle_aabb(o)
    try:
        box = col.aabb()
        ev["aabb_calls"] += 1
        _judge_box(box, ref, L, dict(key, fn="collider.aabb"), viol, worst, "%s.aabb()" % O.name(spec))
    except Exception as e:  # noqa: BLE001
        viol.append({"key": dict(key, fn="collider.aabb", kind="exception", exc=type(e).__name__), "err": None,
                     "msg": "aabb() raised %s: %s" % (type(e).__name__, str(e)[:200])})
        box = None
    base0 = spec["base"] if spec["kind"] == "margin" else spec
    if box is not None and gen.target_pose(base0) is not None and rng.random() < 0.3:
        # the broad phase calls aabb() after every update_pose: move the collider (fresh array / stack slice / re-used
        # buffer overwritten in place; small and large motions) and judge the new box against the oracle at the new pose
        G = O.pose(gen.rand_rot(rng, "tiny" if rng.random() < 0.2 else None), rng.normal(size=3) * (1e-3 if rng.random() < 0.2 else 1.0))
        spec_m = O.moved(spec, G)
        bm = spec_m["base"] if spec_m["kind"] == "margin" else spec_m
        o_m = O.oracle(spec_m)
        R_m = _rot_of(spec_m)
        key_m = {"shape": kind, "margin": spec["kind"] == "margin", "rot_axis_aligned": _axis_aligned(R_m)}
        if kind == "ellipsoid" and not key_m["rot_axis_aligned"]:
            key_m["_known_blind"] = True
        try:
            mode = gen.apply_pose(col, gen.target_pose(bm), rng)
            ev["aabb_after_update_pose"] = ev.get("aabb_after_update_pose", 0) + 1
            _judge_box(col.aabb(), oracle_aabb(o_m), O.scene_L([o_m]), dict(key_m, fn="collider.aabb"), viol, worst,
                       "%s.aabb() after update_pose (%s)" % (O.name(spec), mode))
        except Exception as e:  # noqa: BLE001
            viol.append({"key": dict(key_m, fn="collider.aabb", kind="exception", exc=type(e).__name__), "err": None,
                         "msg": "aabb() after update_pose raised %s: %s" % (type(e).__name__, str(e)[:200])})
        col = gen.build(spec)
    if spec["kind"] == "margin" and box is not None:
        try:
            inner = np.asarray(col.collider.aabb(), float)
            d = np.abs(np.c_[inner[:, 0] - box[:, 0], box[:, 1] - inner[:, 1]] - spec["m"]).max() / L
            ev["margin_delta_checks"] += 1
            worst["margin_delta/L"] = max(worst.get("margin_delta/L", 0.0), float(d))
            if not d <= TOL:
                viol.append({"key": {"fn": "Margin.aabb", "kind": "margin-not-added-exactly"}, "err": float(d),
                             "msg": "Margin.aabb differs from inner box +- margin by %.3g*L" % d})
        except Exception as e:  # noqa: BLE001
            viol.append({"key": {"fn": "Margin.aabb", "kind": "exception", "exc": type(e).__name__}, "err": None, "msg": str(e)[:200]})
    base = spec["base"] if spec["kind"] == "margin" else spec
    name, fn = _free_fn(base)
    if fn is not None:
        ob = O.oracle(base)
        try:
            mins, maxs = fn()
            ev["free_fn_calls"] += 1
            fb = np.array([mins, maxs], float).T
            k2 = {"shape": kind, "margin": False, "rot_axis_aligned": key["rot_axis_aligned"], "fn": name}
            if "_known_blind" in key:
                k2["_known_blind"] = True
            _judge_box(fb, oracle_aabb(ob), O.scene_L([ob]), k2, viol, worst, "containment.%s" % name)
        except Exception as e:  # noqa: BLE001
            viol.append({"key": {"fn": name, "kind": "exception", "exc": type(e).__name__, "shape": kind}, "err": None,
                         "msg": "%s raised %s: %s" % (name, type(e).__name__, str(e)[:200])})
    cls = "%s|%s" % (O.name(spec), "aligned" if key["rot_axis_aligned"] else "general")
    # consequence clause
    if idx % 4 == 0 and box is not None:
        spec2 = gen.rand_spec(rng, margin_p=0.1, far_ok=False)
        oB = O.oracle(spec2)
        pA, rA = o.deep_point()
        pB, rB = oB.deep_point()
        # the common point must lie inside at least one shape with a margin far above rounding,
        # otherwise 'the point sets intersect' is not certified in floating point (flat vs flat)
        Lp = max(L, O.scene_L([oB]))
        if max(rA, rB) < 1e-6 * Lp:
            return {"cls": cls + "|pair-flat-flat", "nontrivial": True, "sig": repr(O.describe(spec)), "events": ev,
                    "worst": worst, "viol": viol, "inconcl": ["pair of two flat shapes: no certified common point"],
                    "sample": {"spec": O.describe(spec)}}
        off = gen.rand_dir(rng) * rng.uniform(0, 0.5) * max(rA, 0.0)
        spec2 = O.translated(spec2, pA + off - pB)
        try:
            b2 = np.asarray(gen.build(spec2).aabb(), float)
            ev["pair_overlap_checks"] += 1
            if np.all(np.isfinite(b2)) and not _overlap(np.asarray(box, float), b2):
                R2 = _rot_of(spec2)
                viol.append({"key": {"fn": "consequence", "kind": "intersecting-shapes-disjoint-boxes",
                                     "shapes": sorted([kind, O.base_kind(spec2)]),
                                     "ellipsoid_general_rotation": bool(
                                         (kind == "ellipsoid" and not key["rot_axis_aligned"]) or
                                         (O.base_kind(spec2) == "ellipsoid" and not _axis_aligned(R2)))},
                             "err": None, "msg": "colliders share a point but their AABBs do not overlap: %s vs %s" % (
                                 np.asarray(box).tolist(), b2.tolist())})
        except Exception as e:  # noqa: BLE001
            viol.append({"key": {"fn": "collider.aabb", "kind": "exception", "exc": type(e).__name__}, "err": None, "msg": str(e)[:200]})
        cls += "|pair"
    # hydroelastic rigid body
    if idx % 10 == 3:
        _rigid_body(rng, viol, worst, ev)
        cls += "|rigid"
    nontrivial = not (kind == "sphere") or spec["kind"] == "margin"
    return {"cls": cls, "nontrivial": nontrivial, "sig": repr(O.describe(spec)), "events": ev, "worst": worst,
            "viol": viol, "sample": {"spec": O.describe(spec)}}


def _rigid_body(rng, viol, worst, ev):
    from distance3d import hydroelastic_contact as hc
    from distance3d.utils import transform_points
    which = str(rng.choice(["box", "cube", "sphere", "ellipsoid", "cylinder", "capsule"]))
    rk = str(rng.choice(["ident", "haar", "perm", "tiny"], p=[.2, .5, .15, .15]))
    T = O.pose(gen.rand_rot(rng, rk), gen.center(rng, far_ok=False) if rng.random() < 0.8 else np.zeros(3))
    T = np.ascontiguousarray(T)
    try:
        if which == "box":
            rb = hc.RigidBody.make_box(T, np.array([gen.size(rng, 0.05, 10), gen.size(rng, 0.05, 10), gen.size(rng, 0.05, 10)]))
        elif which == "cube":
            rb = hc.RigidBody.make_cube(T, gen.size(rng, 0.05, 10))
        elif which == "sphere":
            T[:3, :3] = np.eye(3)
            rb = hc.RigidBody.make_sphere(T[:3, 3].copy(), gen.size(rng, 0.05, 10), int(rng.integers(0, 3)))
        elif which == "ellipsoid":
            rb = hc.RigidBody.make_ellipsoid(T, np.array([gen.size(rng, 0.05, 10), gen.size(rng, 0.05, 10), gen.size(rng, 0.05, 10)]),
                                             int(rng.integers(0, 3)))
        elif which == "cylinder":
            r = gen.size(rng, 0.05, 10)
            rb = hc.RigidBody.make_cylinder(T, r, gen.size(rng, 0.05, 10), resolution_hint=r * float(rng.uniform(0.5, 2)))
        else:
            r = gen.size(rng, 0.05, 10)
            rb = hc.RigidBody.make_capsule(T, r, gen.size(rng, 0.05, 10), resolution_hint=r * float(rng.uniform(0.5, 2)))
        box = np.asarray(rb.aabb(), float)
        W = transform_points(rb.body2origin_, rb.vertices_)
        W2 = rb.vertices_ @ T[:3, :3].T + T[:3, 3]     # independent of the library's transform
    except Exception as e:  # noqa: BLE001
        viol.append({"key": {"fn": "RigidBody.aabb", "kind": "exception", "exc": type(e).__name__, "body": which}, "err": None,
                     "msg": "RigidBody(%s).aabb() raised %s: %s" % (which, type(e).__name__, str(e)[:200])})
        return
    ev["rigid_body_checks"] += 1
    body_bounds0 = np.c_[rb.vertices_.min(axis=0), rb.vertices_.max(axis=0)]
    # history clause: the box (and the AABB tree behind it) must follow the body when it is re-expressed in
    # another frame (contact queries do that implicitly with their first argument)
    try:
        T2 = np.ascontiguousarray(O.pose(gen.rand_rot(rng), gen.center(rng, far_ok=False)))
        rb.express_in(T2)
        box2 = np.asarray(rb.aabb(), float)
        body_bounds = np.c_[rb.vertices_.min(axis=0), rb.vertices_.max(axis=0)]
        L2 = max(1.0, float(np.abs(rb.vertices_).max()))
        d2 = np.abs(box2 - body_bounds).max() / L2 if box2.shape == (3, 2) else float("inf")
        ev["rigid_body_reexpress_checks"] = ev.get("rigid_body_reexpress_checks", 0) + 1
        worst["rigid_after_express_in/L"] = max(worst.get("rigid_after_express_in/L", 0.0), float(d2))
        if not d2 <= TOL:
            viol.append({"key": {"fn": "RigidBody.aabb", "kind": "stale-after-express_in", "body": which}, "err": float(d2),
                         "msg": "RigidBody(%s): aabb() after express_in() differs from the bounds of the re-expressed vertices by %.3g*L" % (which, d2)})
        from distance3d.hydroelastic_contact import tetrahedral_mesh_aabbs
        tree = rb.aabb_tree
        leaf = np.asarray(tree.aabbs[:len(rb.tetrahedra_)], float)
        ref_leaf = np.asarray(tetrahedral_mesh_aabbs(rb.tetrahedra_points), float)
        if leaf.shape != ref_leaf.shape or np.abs(leaf - ref_leaf).max() > TOL * L2:
            viol.append({"key": {"fn": "RigidBody.aabb_tree", "kind": "stale-after-express_in", "body": which}, "err": None,
                         "msg": "RigidBody(%s): aabb_tree after express_in() does not hold the boxes of the re-expressed tetrahedra" % which})
    except Exception as e:  # noqa: BLE001
        viol.append({"key": {"fn": "RigidBody.aabb", "kind": "exception", "exc": type(e).__name__, "body": which}, "err": None,
                     "msg": "RigidBody(%s) express_in/aabb raised %s: %s" % (which, type(e).__name__, str(e)[:200])})
    ref = np.c_[W2.min(axis=0), W2.max(axis=0)]
    L = max(1.0, float(np.abs(W2).max()))
    pose_identity = bool(np.allclose(T, np.eye(4), atol=0, rtol=0))
    diff = np.abs(box - ref).max() / L if box.shape == (3, 2) else float("inf")
    if pose_identity:
        worst["rigid_identity/L"] = max(worst.get("rigid_identity/L", 0.0), float(diff))
    if not diff <= TOL:
        viol.append({"key": {"fn": "RigidBody.aabb", "kind": "not-world-frame-bounds", "pose_identity": pose_identity,
                             "equals_body_frame_bounds": bool(box.shape == (3, 2) and np.abs(
                                 box - body_bounds0).max() <= TOL * L)},
                     "err": float(diff), "msg": "RigidBody(%s).aabb() differs from world-frame vertex bounds by %.3g*L" % (which, diff)})
