"""C18 - simplex solvers return the minimum-norm point of the convex hull of 1-4 points.

Oracle: exact rational arithmetic (fractions.Fraction): enumeration of all
non-empty subsets, affine min-norm solve by Gaussian elimination, feasibility
lambda >= 0. Works for integer lattices and, because every float is a
rational, for arbitrary real configurations as well.
"""
import itertools
from fractions import Fraction

import numpy as np

from .. import oracles as O

ID = "C18"
PROPNUM = 18
LEVEL = "exploration"
TOL = 1e-9
BLOCK = 64
MODES = {"quick": ["jit"] * 12 + ["bounds"] * 4, "thorough": ["jit"] * 12 + ["bounds"] * 4}
CASE_TIMEOUT_S = 300
N1, N2, N3, N4 = 27, 27 ** 2, 27 ** 3, 27 ** 4
RULE = ("configurations of k=1..4 points: ALL configurations with coordinates in {-1,0,1} for k=1,2,3 (20 439) in both tiers; "
        "k=4: 60 000 sampled (quick) / all 531 441 (thorough, exhaustive); plus 24 000 (quick) / 200 000 (thorough) sampled "
        "configurations over {-2..2}^3 (region boundaries that the {-1,0,1} lattice cannot produce); plus random real configurations (12 000 quick / 100 000 thorough) with aspect ratios over 12 orders of "
        "magnitude, duplicated and nearly dependent points, and 'GJK slivers' (points collinear up to rounding on a line that "
        "misses the origin). One case = a block of 64 configurations. For each configuration "
        "both solvers run: jolt get_closest_point_to_origin(Y,k,inf) and the original "
        "distance_subalgorithm_with_backup_procedure(simplex, Solution(), backup=True). Judged against the exact rational "
        "minimum: |v| within 1e-9*scale, v inside the hull of the returned subset, weights >= 0 summing to 1 that reproduce v. "
        "non-trivial = configuration is affinely dependent, has duplicates or the optimum lies on a proper face; distinct = "
        "distinct configurations")
ASSUMPTIONS = ["exact rational oracle (fractions.Fraction)", "tolerance relative to the largest point norm of the configuration (>= 1 for lattices)"]
MIN_EVENTS = {"configs": 30000, "jolt_calls": 30000, "original_calls": 30000, "degenerate_configs": 5000}


def _n_lattice_blocks(tier):
    n = N1 + N2 + N3
    n4 = N4 if tier == "thorough" else 60000
    return n, n4


def cases(tier):
    n, n4 = _n_lattice_blocks(tier)
    extra5 = 200000 if tier == "thorough" else 24000
    real = 100000 if tier == "thorough" else 12000
    return (n + n4 + extra5 + real + BLOCK - 1) // BLOCK


def _decode(i, k):
    pts = []
    for _ in range(k):
        p = []
        for _ in range(3):
            p.append((i % 3) - 1)
            i //= 3
        pts.append(p)
    return np.array(pts, dtype=float)


def config(rng, g, tier):
    """g-th configuration of the tier's enumeration -> (points (k,3) float, label)"""
    n, n4 = _n_lattice_blocks(tier)
    if g < N1:
        return _decode(g, 1), "lattice3-k1"
    if g < N1 + N2:
        return _decode(g - N1, 2), "lattice3-k2"
    if g < n:
        return _decode(g - N1 - N2, 3), "lattice3-k3"
    g2 = g - n
    if g2 < n4:
        if tier == "thorough":
            return _decode(g2, 4), "lattice3-k4"
        return _decode(int(rng.integers(0, N4)), 4), "lattice3-k4-sampled"
    g3 = g2 - n4
    extra5 = 200000 if tier == "thorough" else 24000
    if g3 < extra5:
        k = int(rng.integers(2, 5))
        return rng.integers(-2, 3, size=(k, 3)).astype(float), "lattice5-k%d" % k
    # random real configurations
    k = int(rng.integers(1, 5))
    mode = str(rng.choice(["aspect", "near-dependent", "duplicate", "plain", "tiny", "huge", "gjk-sliver"]))
    P = rng.normal(size=(k, 3))
    if mode == "gjk-sliver":
        # what GJK's last simplex looks like in front of a flat or straight feature: support differences on one line that
        # does not pass through the origin, off that line only by rounding (1e-17..1e-12 of the size), the deviation pointing
        # towards the origin, so that the plane of the sliver (nearly) contains the origin
        from .. import gen
        k = int(rng.integers(3, 5))
        R = gen.rand_rot(rng, str(rng.choice(["ident", "perm", "haar"])))
        r = float(rng.choice([0.25, 0.5, 1.0, 3.0]))
        t = [-float(rng.uniform(0.5, 8.0)), float(rng.uniform(0.2, 4.0))]
        while len(t) < k:
            t.append(t[-1] + float(rng.choice([-1.0, 1.0])) * 10 ** rng.uniform(-9, -1))
        dl = [0.0] + [float(rng.choice([-1.0, 1.0])) * 10 ** rng.uniform(-17, -12) * float(rng.integers(0, 3)) for _ in range(k - 1)]
        P = np.array([[-(r + d * r), 0.0, ti] for ti, d in zip(t, dl)])
        if rng.random() < 0.5:
            P = P[rng.permutation(k)]
        P = (P @ R.T) * float(rng.choice([1.0, 1.0, 0.1, 10.0]))
        return np.ascontiguousarray(P), "real-gjk-sliver-k%d" % k
    if mode == "aspect":
        P = P * 10 ** rng.uniform(-6, 6, size=3)
    elif mode == "near-dependent" and k >= 2:
        P[-1] = P[0] + (P[1 % k] - P[0]) * rng.uniform(-1, 2) + rng.normal(size=3) * 10 ** rng.uniform(-14, -4)
    elif mode == "duplicate" and k >= 2:
        P[-1] = P[0]
    elif mode == "tiny":
        P = P * 10 ** rng.uniform(-6, -2)
    elif mode == "huge":
        P = P * 10 ** rng.uniform(2, 6)
    if rng.random() < 0.5:
        P = P + rng.normal(size=3) * np.abs(P).max() * rng.uniform(0, 3)
    return np.ascontiguousarray(P), "real-%s-k%d" % (mode, k)


# ---- exact oracle -----------------------------------------------------------
def _solve(A, b):
    """Gaussian elimination over Fractions; None if singular"""
    n = len(A)
    M = [row[:] + [bb] for row, bb in zip(A, b)]
    for c in range(n):
        piv = None
        for r in range(c, n):
            if M[r][c] != 0:
                piv = r
                break
        if piv is None:
            return None
        M[c], M[piv] = M[piv], M[c]
        pv = M[c][c]
        M[c] = [x / pv for x in M[c]]
        for r in range(n):
            if r != c and M[r][c] != 0:
                f = M[r][c]
                M[r] = [x - f * y for x, y in zip(M[r], M[c])]
    return [M[i][n] for i in range(n)]


def exact_min_norm_sq(P):
    """exact squared distance of the origin to conv(P) (P: list of rows of Fractions)"""
    k = len(P)
    best = None
    G = [[sum(a * b for a, b in zip(P[i], P[j])) for j in range(k)] for i in range(k)]
    for m in range(1, k + 1):
        for S in itertools.combinations(range(k), m):
            # minimise |sum lam_i p_i|^2 s.t. sum lam = 1:  [G 1; 1 0] [lam; mu] = [0; 1]
            A = [[G[i][j] for j in S] + [Fraction(1)] for i in S] + [[Fraction(1)] * m + [Fraction(0)]]
            b = [Fraction(0)] * m + [Fraction(1)]
            sol = _solve(A, b)
            if sol is None:
                continue
            lam = sol[:m]
            if any(x < 0 for x in lam):
                continue
            v = [sum(l * P[i][c] for l, i in zip(lam, S)) for c in range(3)]
            n2 = sum(x * x for x in v)
            if best is None or n2 < best:
                best = n2
    return best


def _affinely_dependent(P):
    if len(P) == 1:
        return False
    E = P[1:] - P[0]
    return np.linalg.matrix_rank(E) < len(P) - 1


def run_case(rng, idx, tier):
    from distance3d.gjk import _gjk_jolt as J, _gjk_original as G
    viol = []; worst = {}
    ev = {"configs": 0, "jolt_calls": 0, "original_calls": 0, "degenerate_configs": 0}
    total = cases(tier) * BLOCK
    labels = {}
    first = None
    nontriv = 0
    for g in range(idx * BLOCK, (idx + 1) * BLOCK):
        P, label = config(rng, g, tier)
        k = len(P)
        if first is None:
            first = P.tolist()
        labels[label] = labels.get(label, 0) + 1
        ev["configs"] += 1
        PF = [[Fraction(float(x)) for x in row] for row in P]
        ref2 = exact_min_norm_sq(PF)
        ref = float(ref2) ** 0.5 if ref2 is not None else None
        scale = max(1.0, float(np.linalg.norm(P, axis=1).max())) if label.startswith("lattice") else max(1e-300, float(np.linalg.norm(P, axis=1).max()))
        dep = bool(_affinely_dependent(P)) if k > 1 else False
        if dep or len({tuple(r) for r in P.tolist()}) < k:
            ev["degenerate_configs"] += 1
        if k > 1:
            sv = np.linalg.svd(P - P.mean(axis=0), compute_uv=False)
            svn = [x for x in sv if x > 1e-300]
            aspect = (max(svn) / min(svn)) if svn else 1.0
        else:
            aspect = 1.0
        # mechanism predicates (observables of the configuration): both solvers compare products of 2-6 lengths
        # with ABSOLUTE thresholds (EPSILON ~ 1e-15), which is only meaningful for unit-scale, well-shaped simplices
        key0 = {"k": k, "dependent": dep, "small_scale": bool(scale < 0.1), "high_aspect": bool(aspect >= 100.0)}
        # ---------------- jolt
        Y = np.zeros((4, 3)); Y[:k] = P
        try:
            ok, v, v2, bits = J.get_closest_point_to_origin(Y, k, np.inf)
            ev["jolt_calls"] += 1
            if not ok or v is None:
                viol.append({"key": dict(key0, solver="jolt", kind="no-success"), "err": None, "msg": "jolt solver reports no progress for %s" % P.tolist()})
            else:
                v = np.asarray(v, float)
                e = abs(float(np.linalg.norm(v)) - ref) / scale
                worst["jolt |v| error/scale"] = max(worst.get("jolt |v| error/scale", 0.0), e)
                if not e <= TOL:
                    viol.append({"key": dict(key0, solver="jolt", kind="not-min-norm"), "err": float(e),
                                 "msg": "jolt solver: |v|=%.12g, exact minimum %.12g for points %s" % (np.linalg.norm(v), ref, P.tolist())})
                if abs(float(v2) - float(v @ v)) > 1e-9 * max(scale * scale, 1e-300):
                    viol.append({"key": dict(key0, solver="jolt", kind="v_len_sq-inconsistent"), "err": None, "msg": "v_len_sq %r != |v|^2 %r" % (v2, v @ v)})
                sub = P[[i for i in range(k) if (int(bits) >> i) & 1]]
                if len(sub) == 0 or (int(bits) >> k) != 0:
                    viol.append({"key": dict(key0, solver="jolt", kind="bad-subset"), "err": None, "msg": "bit set %s for %d points" % (bin(int(bits)), k)})
                else:
                    dh = O.dist_point_hull(v, sub) / scale if len(sub) > 1 else float(np.linalg.norm(v - sub[0])) / scale
                    worst["jolt subset hull distance/scale"] = max(worst.get("jolt subset hull distance/scale", 0.0), dh)
                    if dh > 1e-7:
                        viol.append({"key": dict(key0, solver="jolt", kind="v-not-in-subset-hull"), "err": float(dh),
                                     "msg": "jolt solver: v is %.3g*scale away from the hull of the reported subset %s of %s" % (dh, bin(int(bits)), P.tolist())})
        except Exception as e:  # noqa: BLE001
            viol.append({"key": dict(key0, solver="jolt", kind="exception", exc=type(e).__name__), "err": None,
                         "msg": "jolt solver raised %s for %s" % (type(e).__name__, P.tolist())})
        # ---------------- original (backup procedure)
        try:
            S = G.SimplexInfo()
            S.set_first_point(0, 0, P[0].copy())
            for i in range(1, k):
                S.add_new_point(i, i, P[i].copy())
            sol, _ = G.distance_subalgorithm_with_backup_procedure(S, G.Solution(), True)
            ev["original_calls"] += 1
            m = len(S)
            v = np.asarray(sol.search_direction, float)
            w = np.asarray(sol.barycentric_coordinates[:m], float)
            sub = np.asarray(S.points[:m], float)
            e = abs(float(np.linalg.norm(v)) - ref) / scale
            worst["original |v| error/scale"] = max(worst.get("original |v| error/scale", 0.0), e)
            if not e <= TOL:
                viol.append({"key": dict(key0, solver="original", kind="not-min-norm"), "err": float(e),
                             "msg": "original backup solver: |v|=%.12g, exact minimum %.12g for points %s" % (np.linalg.norm(v), ref, P.tolist())})
            if not (np.all(w >= -1e-12) and abs(w.sum() - 1.0) <= 1e-9):
                viol.append({"key": dict(key0, solver="original", kind="weights-not-convex"), "err": float(max(-w.min(), abs(w.sum() - 1))),
                             "msg": "original backup solver: weights %s for %s" % (w.tolist(), P.tolist())})
            rep = float(np.linalg.norm(w @ sub - v)) / scale
            worst["original weights reproduce v /scale"] = max(worst.get("original weights reproduce v /scale", 0.0), rep)
            if rep > TOL:
                viol.append({"key": dict(key0, solver="original", kind="weights-do-not-reproduce-v"), "err": float(rep),
                             "msg": "original backup solver: weights * subset differs from v by %.3g*scale" % rep})
            if not all(any(np.array_equal(r, q) for q in P) for r in sub):
                viol.append({"key": dict(key0, solver="original", kind="subset-not-from-input"), "err": None, "msg": "subset rows are not input points"})
            if abs(float(sol.distance_squared) - float(v @ v)) > 1e-9 * max(scale * scale, 1e-300):
                viol.append({"key": dict(key0, solver="original", kind="distance_squared-inconsistent"), "err": None, "msg": "distance_squared %r != |v|^2 %r" % (sol.distance_squared, v @ v)})
        except Exception as e:  # noqa: BLE001
            viol.append({"key": dict(key0, solver="original", kind="exception", exc=type(e).__name__), "err": None,
                         "msg": "original backup solver raised %s: %s for %s" % (type(e).__name__, str(e)[:100], P.tolist())})
        if dep or (ref2 is not None and k > 1):
            nontriv += 1
    lab = max(labels, key=labels.get)
    return {"cls": lab, "nontrivial": nontriv > 0, "sig": repr((idx, first)), "events": ev, "worst": worst, "viol": viol,
            "sample": {"first_configuration": first, "block": idx, "labels": labels}}


def extra_coverage(cov):
    # exhaustive: the lattice {-1,0,1}^3 is completely enumerated for k<=3 in both tiers and for k=4 in thorough
    return {"exhaustive": False, "exhaustive_part": "all configurations over {-1,0,1}^3 for k=1,2,3 (both tiers); k=4 in the thorough tier"}
