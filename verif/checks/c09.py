"""C09 - alternative distance algorithms agree with the true distance.

gjk_distance_original: closest points on their colliders, |a-b| = d, d true,
each within 1e-3*L. gjk_nesterov_accelerated(_primitives)_distance: value
within 1e-3*L of the true distance (0 for overlapping pairs), with and without
Nesterov acceleration; the `inside` flag agrees with the truth outside the band.
"""
import numpy as np

from .. import oracles as O, pairs, refsolve, monitors

ID = "C09"
PROPNUM = 9
LEVEL = "exploration"
TOL = 1e-3
MODES = {"quick": ["jit"] * 12 + ["bounds"] * 4, "thorough": ["jit"] * 12 + ["bounds"] * 4}
CASE_TIMEOUT_S = 120
PRIM = ("sphere", "capsule", "box", "ellipsoid", "cylinder")
SPECIAL = ("sphere", "capsule")
RULE = ("one case = one ordered collider pair (type pair from the index; every third case forces the mixed class "
        "'sphere/capsule vs. a type without specialised support (cone, disk, ellipse, hull, mesh, Margin)', every fourth "
        "forces both types into the five primitives), placement classes as C01 with exact truth for gap/touch/deep classes and "
        "the reference interval otherwise. Executed: gjk_distance_original; gjk_nesterov_accelerated with "
        "use_nesterov_acceleration in {False, True} and its public *_distance/_intersection wrappers; the primitives variant "
        "(both acceleration settings) where the types allow. non-trivial = class not free/far; distinct = distinct scene hashes")
ASSUMPTIONS = ["truth as in C01 (exact construction or sound reference interval)", "tolerance 1e-3*L as stated"]
MIN_EVENTS = {"original_calls": 2000, "nesterov_calls": 4000, "primitives_calls": 1000, "mixed_pairs": 500}
MAX_INCONCLUSIVE_FRACTION = 0.05
NOSPECIAL = ("cone", "disk", "ellipse", "hull", "mesh")


def cases(tier):
    return 10000 if tier == "quick" else 200000


def run_case(rng, idx, tier):
    from distance3d import gjk
    kA = O.KINDS[idx % 10]; kB = O.KINDS[(idx // 10) % 10]
    margin_p = 0.15
    forced = "any"
    if idx % 3 == 1:
        kA = str(rng.choice(SPECIAL)); kB = str(rng.choice(NOSPECIAL))
        if rng.random() < 0.5:
            kA, kB = kB, kA
        margin_p = 0.0; forced = "mixed"
    elif idx % 4 == 2:
        kA = str(rng.choice(PRIM)); kB = str(rng.choice(PRIM)); margin_p = 0.0; forced = "prim"
    class_p = None
    if forced == "prim" and rng.random() < 0.5:
        class_p = {"axial": .5, "lattice": .2, "feature": .15, "gap": .15}
    sA, sB, cls, truth = pairs.make_pair(rng, kA, kB, margin_p=margin_p, class_p=class_p)
    oA, oB, L = pairs.scene(sA, sB, k=1e-3)
    A, B = pairs.build_pair(sA, sB)
    tol = TOL * L
    names = (O.name(sA), O.name(sB))
    viol = []; inconcl = []; worst = {}
    ev = {"original_calls": 0, "nesterov_calls": 0, "primitives_calls": 0, "mixed_pairs": 0, "iteration_cap_hits": 0}
    if truth["dist"] is not None:
        lb = ub = truth["dist"]
    elif truth["common"] is not None and truth["depth"] is not None and truth["depth"] > 0:
        lb = ub = 0.0
    else:
        r = refsolve.ref_distance(oA, oB, L, eps_rel=1e-5, max_iter=200)
        lb, ub = r["lb"], r["ub"]
        if not r["closed"] and ub - lb > 0.1 * tol:
            inconcl.append("reference interval did not close")
    clear_gap = lb >= tol
    clear_overlap = truth["common"] is not None and truth["depth"] is not None and truth["depth"] >= tol
    mixed = (sA["kind"] in SPECIAL) != (sB["kind"] in SPECIAL) and not (sA["kind"] in PRIM and sB["kind"] in PRIM)
    if mixed:
        ev["mixed_pairs"] += 1
    key0 = {"cls": cls.split("+")[0], "pair": "%s|%s" % (O.base_kind(sA), O.base_kind(sB)),
            "max_aspect": O.aspect_bucket(max(O.aspect(sA), O.aspect(sB))),
            "scene_aspect": O.aspect_bucket(O.scene_aspect(sA, sB)),
            "small_scene": bool(max(oA.scale(), oB.scale()) < 0.1)}
    rec = {"cls": "%s|%s|%s|%s" % (names[0], names[1], cls, forced), "nontrivial": cls not in ("free", "far"),
           "sig": repr(pairs.describe(sA, sB, cls, truth)), "sample": pairs.describe(sA, sB, cls, truth)}
    if inconcl:
        rec.update(events=ev, viol=viol, worst=worst, inconcl=inconcl)
        return rec

    def judge_value(fn, val, extra):
        over = (val - ub) / L; under = (lb - val) / L
        e = max(over, under)
        worst[fn + "/L"] = max(worst.get(fn + "/L", 0.0), e if extra.get("_count", True) else 0.0)
        k = dict(key0, fn=fn, **{a: b for a, b in extra.items() if not a.startswith("_")})
        if not np.isfinite(val):
            viol.append({"key": dict(k, kind="non-finite"), "err": None, "msg": "%s returned %r" % (fn, val)})
        elif e > TOL:
            viol.append({"key": dict(k, kind="wrong-distance", sign="too-large" if over > under else "too-small",
                                     returned_zero=bool(val == 0.0)), "err": float(e),
                         "msg": "%s(%s,%s) [%s] = %.9g, truth in [%.9g, %.9g] (off by %.3g*L)" % (fn, names[0], names[1], cls, val, lb, ub, e)})

    # ---- original
    try:
        d, a, b, simplex_o, iters = gjk.gjk_distance_original(A, B)
        ev["original_calls"] += 1
        d = float(d); a = np.asarray(a, float); b = np.asarray(b, float)
        # mechanism of K24: the routine reports distance 0 whenever its final simplex has four points
        # (observable: exact 0 together with two identical closest points, which only that branch produces)
        zero4 = {"tetrahedron_branch": bool(d == 0.0 and np.array_equal(a, b))}
        if not monitors.finite(d, a, b):
            viol.append({"key": dict(key0, fn="original", kind="non-finite"), "err": None, "msg": "original returned d=%r a=%r b=%r" % (d, a, b)})
        else:
            judge_value("original", d, zero4)
            ma = oA.dist(a) / L; mb = oB.dist(b) / L; cons = abs(float(np.linalg.norm(a - b)) - d) / L
            worst["original_membership/L"] = max(ma, mb); worst["original_consistency/L"] = cons
            if ma > TOL or mb > TOL:
                viol.append({"key": dict(key0, fn="original", kind="point-not-on-collider", returned_zero=bool(d == 0.0), **zero4), "err": float(max(ma, mb)),
                             "msg": "original(%s,%s) [%s]: closest point off its collider by %.3g*L" % (names[0], names[1], cls, max(ma, mb))})
            if cons > TOL:
                viol.append({"key": dict(key0, fn="original", kind="inconsistent"), "err": float(cons),
                             "msg": "original(%s,%s) [%s]: | |a-b| - d | = %.3g*L" % (names[0], names[1], cls, cons)})
    except Exception as e:  # noqa: BLE001
        viol.append({"key": dict(key0, fn="original", kind="exception", exc=type(e).__name__), "err": None,
                     "msg": "original(%s,%s) [%s] raised %s: %s" % (names[0], names[1], cls, type(e).__name__, str(e)[:200])})
    # ---- nesterov (+ primitives)
    variants = [("nesterov", gjk.gjk_nesterov_accelerated, gjk.gjk_nesterov_accelerated_distance, gjk.gjk_nesterov_accelerated_intersection)]
    if sA["kind"] in PRIM and sB["kind"] in PRIM:
        variants.append(("primitives", gjk.gjk_nesterov_accelerated_primitives, gjk.gjk_nesterov_accelerated_primitives_distance,
                         gjk.gjk_nesterov_accelerated_primitives_intersection))
    for vname, core, dist_fn, inter_fn in variants:
        for acc in (False, True):
            fn = "%s[acc=%s]" % (vname, acc)
            try:
                inside, dist, _, iters = core(A, B, use_nesterov_acceleration=acc)
            except Exception as e:  # noqa: BLE001
                viol.append({"key": dict(key0, fn=vname, acc=acc, kind="exception", exc=type(e).__name__, mixed=mixed), "err": None,
                             "msg": "%s(%s,%s) [%s] raised %s: %s" % (fn, names[0], names[1], cls, type(e).__name__, str(e)[:200])})
                continue
            ev["nesterov_calls" if vname == "nesterov" else "primitives_calls"] += 1
            cap = int(iters) >= 128
            if cap:
                ev["iteration_cap_hits"] += 1
            judge_value(vname, max(float(dist), 0.0), {"acc": acc, "iteration_cap": cap, "mixed": mixed, "_count": not cap})
            if (clear_gap and bool(inside)) or (clear_overlap and not bool(inside)):
                viol.append({"key": dict(key0, fn=vname, acc=acc, kind="inside-flag-wrong", iteration_cap=cap, mixed=mixed),
                             "err": float((lb if clear_gap else truth["depth"]) / L),
                             "msg": "%s(%s,%s) [%s]: inside=%s but truth is %s" % (fn, names[0], names[1], cls, inside,
                                                                                    "gap %.3g" % lb if clear_gap else "overlap depth %.3g" % truth["depth"])})
        # public wrappers (default: no acceleration)
        try:
            # fresh, identical scenes for each call: mesh colliders cache their last support vertex
            dv = float(dist_fn(*pairs.build_pair(sA, sB))); iv = inter_fn(*pairs.build_pair(sA, sB))
            core_r = core(*pairs.build_pair(sA, sB))
            if abs(dv - max(float(core_r[1]), 0.0)) > 1e-9 * L or bool(iv) != bool(core_r[0]):
                viol.append({"key": dict(key0, fn=vname, kind="wrapper-disagrees"), "err": None,
                             "msg": "%s wrappers (%r, %r) differ from core result (%r, %r)" % (vname, dv, iv, core_r[1], core_r[0])})
        except Exception as e:  # noqa: BLE001
            viol.append({"key": dict(key0, fn=vname, kind="exception", exc=type(e).__name__, acc=False, mixed=mixed), "err": None,
                         "msg": "%s wrapper raised %s" % (vname, type(e).__name__)})
    rec.update(events=ev, viol=viol, worst=worst, inconcl=inconcl)
    return rec
