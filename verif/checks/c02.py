"""C02 - boolean narrow-phase tests never miss a clear overlap nor report a clear gap.

Truth by construction (independent witness): gap classes come with a separating
plane of width g >= 1e-3*L, deep classes with a common point at certified depth
>= 1e-3*L in both shapes. Nothing is judged inside the band.
"""
import numpy as np

from .. import oracles as O, pairs, refsolve

ID = "C02"
PROPNUM = 2
LEVEL = "exploration"
DELTA = 1e-3
MODES = {"quick": ["jit"] * 12 + ["bounds"] * 4, "thorough": ["jit"] * 12 + ["bounds"] * 4}
CASE_TIMEOUT_S = 120
PRIM = ("sphere", "capsule", "box", "ellipsoid", "cylinder")
CLASS_P = {"gap": .3, "touch": .06, "deep": .28, "nested": .08, "same": .04, "copy": .04, "lattice": .1, "parallel": .05, "coplanar": .05, "feature": .08}
RULE = ("one case = one ordered collider pair (all 100 type pairs by index, Margin p=0.15) placed with a constructed truth: "
        "gap g in [1e-3 L, 10 L] log-uniform (half of them within a factor 3 of the band edge), or common point at certified "
        "depth >= 1e-3 L (deep/nested/same/copy), or lattice/parallel/coplanar scenes certified by the reference solver's "
        "separating slab; the five boolean tests (gjk_intersection[_jolt], gjk_intersection_libccd, mpr_intersection, "
        "gjk_nesterov_accelerated_intersection, gjk_nesterov_accelerated_primitives_intersection where the types allow) plus "
        "gjk_distance==0 are all executed and compared with the truth. non-trivial = every judged case (truth is within 10^4 "
        "of the band edge); distinct = distinct (specs,class) hashes")
ASSUMPTIONS = ["separating plane / inscribed-ball witnesses from the oracle closed forms", "band: nothing judged for gap or depth < 1e-3*L"]
MIN_EVENTS = {"decided_true": 800, "decided_false": 800, "calls_jolt": 2000, "calls_libccd": 2000, "calls_mpr": 2000,
              "calls_nesterov": 2000, "calls_primitives": 300}
MAX_INCONCLUSIVE_FRACTION = 0.45


def cases(tier):
    return 10000 if tier == "quick" else 400000


def _tests():
    from distance3d import gjk, mpr
    return [
        ("jolt", lambda a, b: gjk.gjk_intersection(a, b), None),
        ("libccd", lambda a, b: gjk.gjk_intersection_libccd(a, b), None),
        ("mpr", lambda a, b: mpr.mpr_intersection(a, b), None),
        ("nesterov", lambda a, b: gjk.gjk_nesterov_accelerated_intersection(a, b), None),
        ("primitives", lambda a, b: gjk.gjk_nesterov_accelerated_primitives_intersection(a, b), PRIM),
        ("distance", lambda a, b: gjk.gjk_distance(a, b)[0] == 0.0, None),
    ]


def run_case(rng, idx, tier):
    kA = O.KINDS[idx % 10]; kB = O.KINDS[(idx // 10) % 10]
    cp = dict(CLASS_P)
    sA, sB, cls, truth = pairs.make_pair(rng, kA, kB, class_p=cp)
    if cls == "gap" and rng.random() < 0.5:
        # re-place near the band edge: g in [1, 3] * 1e-3 * L
        oA0, oB0, L0 = pairs.scene(sA, sB, k=1e-3)
        from .. import gen
        g = DELTA * L0 * rng.uniform(1.0, 3.0) * 1.02
        sB, u, pa, pb = gen.place_gap(rng, sA, sB, g, truth["u"])
        truth["dist"] = g
    oA, oB, L = pairs.scene(sA, sB, k=1e-3)
    A, B = pairs.build_pair(sA, sB)
    viol = []; inconcl = []
    ev = {"decided_true": 0, "decided_false": 0}
    names = (O.name(sA), O.name(sB))
    expected = None
    margin = None
    if truth["dist"] is not None and truth["dist"] >= DELTA * L:
        expected = False; margin = truth["dist"] / L
    elif truth["common"] is not None and truth["depth"] is not None and truth["depth"] >= DELTA * L:
        expected = True; margin = truth["depth"] / L
    elif truth["dist"] is None and truth["common"] is None:
        r = refsolve.ref_distance(oA, oB, L, eps_rel=1e-5, max_iter=120)
        if r["lb"] >= DELTA * L:
            expected = False; margin = r["lb"] / L
        elif r["lb"] <= 0 and r["ub"] <= 1e-6 * L:
            # overlapping scene without constructed truth (lattice / parallel / coplanar / feature classes with
            # coincident coordinates): certify a common point by maximising the inscribed common ball
            from .. import penscene
            rho = 0.5 * penscene.common_ball_lower_bound(oA, oB, 0.5 * (r["a"] + r["b"]), iters=150)
            if rho >= DELTA * L:
                expected = True; margin = rho / L
                ev["overlap_certified_by_common_ball"] = 1
    rec = {"cls": "%s|%s|%s|%s" % (names[0], names[1], cls, {None: "band", True: "overlap", False: "gap"}[expected]),
           "nontrivial": expected is not None, "sig": repr(pairs.describe(sA, sB, cls, truth)),
           "sample": pairs.describe(sA, sB, cls, truth)}
    if expected is None:
        # inside the band either answer is acceptable, but it must be an answer: an exception is neither
        ev["band_calls"] = 0
        for name, f, only in _tests():
            if only is not None and not (sA["kind"] in only and sB["kind"] in only):
                continue
            try:
                f(A, B)
                ev["band_calls"] += 1
            except Exception as e:  # noqa: BLE001
                viol.append({"key": {"test": name, "kind": "exception", "exc": type(e).__name__, "expected": None}, "err": None,
                             "msg": "%s(%s,%s) [%s, in band] raised %s: %s" % (name, names[0], names[1], cls, type(e).__name__, str(e)[:160])})
        rec.update(events=ev, viol=viol, inconcl=["inside the band or no constructed truth: boolean not judged"])
        return rec
    ev["decided_true" if expected else "decided_false"] += 1
    for name, f, only in _tests():
        if only is not None and not (sA["kind"] in only and sB["kind"] in only):
            continue
        try:
            r = f(A, B)
        except Exception as e:  # noqa: BLE001
            viol.append({"key": {"test": name, "kind": "exception", "exc": type(e).__name__, "expected": expected}, "err": None,
                         "msg": "%s(%s,%s) [%s] raised %s: %s" % (name, names[0], names[1], cls, type(e).__name__, str(e)[:160])})
            continue
        ev["calls_" + name] = ev.get("calls_" + name, 0) + 1
        if not isinstance(r, (bool, np.bool_)):
            viol.append({"key": {"test": name, "kind": "not-a-bool"}, "err": None, "msg": "%s returned %r" % (name, r)})
            continue
        if bool(r) != expected:
            extra = {}
            if name == "libccd" and expected:
                from .. import monitors
                sine, trip = monitors.libccd_first_edge(*pairs.build_pair(sA, sB))
                # mechanism of K22: the origin lies (numerically) on the first simplex edge, or the next search
                # direction, a product of three lengths, falls below the absolute threshold EPSILON
                extra = {"origin_on_first_edge": bool(sine < 1e-3 or trip < 1e-13)}
            viol.append({"key": {"test": name, "kind": "missed-overlap" if expected else "reported-gap-as-collision",
                                 "pair": "%s|%s" % (O.base_kind(sA), O.base_kind(sB)), "cls": cls.split("+")[0], **extra},
                         "err": float(margin),
                         "msg": "%s(%s,%s) [%s] answered %s; truth %s with margin %.3g*L" % (
                             name, names[0], names[1], cls, bool(r), expected, margin)})
    rec.update(events=ev, viol=viol, inconcl=inconcl)
    return rec
