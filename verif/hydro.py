"""Scene generation for the hydroelastic properties (C15, C16): rigid bodies from the factories at poses
that make them overlap (general poses, axis-aligned stacking on a lattice) or keep them apart."""
import numpy as np

from . import gen, oracles as O

BODIES = ["sphere", "ellipsoid", "cube", "box", "cylinder", "capsule"]


def body_params(rng, kind, sc=None):
    sc = sc or float(rng.choice([0.1, 0.15, 0.3]))
    u = lambda a, b: float(rng.uniform(a, b))  # noqa: E731
    if kind == "sphere":
        return {"radius": sc * u(0.7, 1.3), "order": int(rng.integers(1, 3))}
    if kind == "ellipsoid":
        return {"radii": sc * rng.uniform(0.6, 1.4, size=3), "order": int(rng.integers(1, 3))}
    if kind == "cube":
        return {"size": 2 * sc * u(0.7, 1.3)}
    if kind == "box":
        return {"size": 2 * sc * rng.uniform(0.6, 1.4, size=3)}
    if kind == "cylinder":
        r = sc * u(0.7, 1.3)
        return {"radius": r, "length": 2 * sc * u(0.6, 1.6), "resolution_hint": r * u(0.5, 1.2)}
    r = sc * u(0.6, 1.0)
    return {"radius": r, "height": 2 * sc * u(0.4, 1.2), "resolution_hint": r * u(0.6, 1.2)}


def make_body(kind, p, T):
    """fresh RigidBody of the given parameters at pose T (sphere: centre only)"""
    from distance3d import hydroelastic_contact as hc
    T = np.array(T, dtype=float, order="C")
    if kind == "sphere":
        if np.array_equal(T[:3, :3], np.eye(3)):
            return hc.RigidBody.make_sphere(T[:3, 3].copy(), p["radius"], p["order"])
        # make_sphere only takes a centre; a rotated sphere body (its mesh is not rotationally symmetric) is built
        # with the public constructor from the factory's mesh
        from distance3d.hydroelastic_contact._tetra_mesh_creation import make_tetrahedral_sphere
        V, tets, pot = make_tetrahedral_sphere(p["radius"], p["order"])
        return hc.RigidBody(T, V, tets, pot)
    if kind == "ellipsoid":
        return hc.RigidBody.make_ellipsoid(T, np.array(p["radii"], float), p["order"])
    if kind == "cube":
        return hc.RigidBody.make_cube(T, p["size"])
    if kind == "box":
        return hc.RigidBody.make_box(T, np.array(p["size"], float))
    if kind == "cylinder":
        return hc.RigidBody.make_cylinder(T, p["radius"], p["length"], p["resolution_hint"])
    return hc.RigidBody.make_capsule(T, p["radius"], p["height"], p["resolution_hint"])


def body_oracle(kind, p, T):
    T = np.asarray(T, float)
    if kind == "sphere":
        return O.OSphere(T[:3, 3], p["radius"])
    if kind == "ellipsoid":
        return O.OEllipsoid(T, p["radii"])
    if kind == "cube":
        return O.OBox(T, np.ones(3) * p["size"])
    if kind == "box":
        return O.OBox(T, p["size"])
    if kind == "cylinder":
        return O.OCylinder(T, p["radius"], p["length"])
    return O.OCapsule(T, p["radius"], p["height"])


def scene(rng, k1=None, k2=None, placement=None):
    """two bodies: returns dict(kinds, params, poses, placement, gap) where gap > 0 certifies disjoint bodies"""
    k1 = k1 or str(rng.choice(BODIES)); k2 = k2 or str(rng.choice(BODIES))
    sc = float(rng.choice([0.1, 0.15, 0.3]))
    p1 = body_params(rng, k1, sc); p2 = body_params(rng, k2, sc)
    placement = placement or str(rng.choice(["general", "aligned", "disjoint", "aligned-tilt"], p=[.5, .25, .1, .15]))
    if placement in ("aligned", "aligned-tilt"):
        R1 = np.eye(3) if rng.random() < 0.6 else gen.rand_rot(rng, "perm")
        R2 = np.eye(3) if rng.random() < 0.6 else gen.rand_rot(rng, "perm")
        if placement == "aligned-tilt":
            # a box settling / rocking on a box: faces nearly, but not exactly, parallel (tilt 1e-7 .. 1e-3 rad)
            w = gen.rand_dir(rng) * 10 ** rng.uniform(-7, -3)
            K = np.array([[0, -w[2], w[1]], [w[2], 0, -w[0]], [-w[1], w[0], 0]])
            Q, _ = np.linalg.qr(np.eye(3) + K); Q = Q * np.sign(np.diag(Q))
            R2 = Q @ R2
        c1 = rng.integers(-2, 3, size=3).astype(float) * sc * 0.5
        T1 = O.pose(R1, c1)
        o1 = body_oracle(k1, p1, T1)
        o2 = body_oracle(k2, p2, O.pose(R2, np.zeros(3)))
        ax = int(rng.integers(3)); u = np.eye(3)[ax] * float(rng.choice([-1.0, 1.0]))
        depth = float(rng.choice([0.02, 0.05, 0.1, 0.25])) * 2 * sc
        c2 = o1.sup(u) - (o2.sup(-u)) + u * (-depth)
        if rng.random() < 0.5:
            lat = np.zeros(3); lat[(ax + 1) % 3] = float(rng.choice([0.0, 0.25, 0.5])) * sc
            c2 = c2 + lat
        T2 = O.pose(R2, c2)
    else:
        T1 = O.pose(gen.rand_rot(rng), rng.normal(size=3) * 0.3)
        R2 = gen.rand_rot(rng)
        o1 = body_oracle(k1, p1, T1)
        o2 = body_oracle(k2, p2, O.pose(R2, np.zeros(3)))
        u = gen.rand_dir(rng)
        if placement == "disjoint":
            g = float(rng.uniform(0.02, 1.0)) * sc
        else:
            g = -float(rng.choice([0.05, 0.1, 0.2, 0.4])) * 2 * sc * rng.uniform(0.5, 1.0)
        c2 = o1.sup(u) + g * u - o2.sup(-u)
        T2 = O.pose(R2, c2)
    o2 = body_oracle(k2, p2, T2)
    gap = None
    if placement == "disjoint":
        from . import refsolve
        r = refsolve.ref_distance(o1, o2, 1.0, eps_rel=1e-6, max_iter=100)
        gap = r["lb"]
    return {"kinds": (k1, k2), "params": (p1, p2), "poses": (T1, T2), "placement": placement, "gap": gap}


def describe(sc):
    def j(x):
        if isinstance(x, dict):
            return {k: j(v) for k, v in x.items()}
        if isinstance(x, np.ndarray):
            return x.tolist()
        if isinstance(x, tuple):
            return [j(v) for v in x]
        return x
    return j({k: sc[k] for k in ("kinds", "params", "poses", "placement")})


def bary(tet, x):
    """barycentric coordinates of points x (m,3) in tetrahedron tet (4,3): own implementation"""
    A = np.vstack([np.asarray(tet, float).T, np.ones(4)])
    return np.linalg.solve(A, np.vstack([np.atleast_2d(x).T, np.ones(len(np.atleast_2d(x)))])).T
