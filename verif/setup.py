"""MANIFEST.setup_cmd: install the harness dependencies from the offline
wheelhouse and compile the library's kernels once per mode for the current
tree (so the first check does not pay for it)."""
import sys
import time

from . import env


def main():
    t0 = time.time()
    env.ensure_deps()
    th = env.tree_hash()
    for mode in ("jit", "bounds"):
        s = env.warm(mode, True, th)
        print("warm %s: %.1fs" % (mode, s))
    print("setup done in %.1fs (tree %s)" % (time.time() - t0, th[:12]))


if __name__ == "__main__":
    sys.exit(main())
