"""Child process: executes one shard of a check's workload with the monitors
on and writes one JSON result file. Started by harness.run() with
faulthandler enabled; the parent treats a death by signal as a recorded event.

usage: python -m verif.child <Cxx> <tier> <seed> <shard> <nshards> <outfile> [idx ...]
"""
import faulthandler
import importlib
import json
import os
import signal
import sys
import time
import traceback
import warnings
import hashlib

warnings.simplefilter("ignore")
faulthandler.enable()

import numpy as np  # noqa: E402

MAX_VIOL_PER_SHARD = 60
MAX_SAMPLES = 3


class CaseTimeout(BaseException):        # BaseException: the check modules' `except Exception` must not swallow it
    """the case consumed more than its budget of CPU time (load independent): a verdict for termination properties"""


class CaseWallTimeout(BaseException):
    """generous wall-clock watchdog: never a verdict, always inconclusive"""


def _cpu_alarm(signum, frame):
    raise CaseTimeout()


def _wall_alarm(signum, frame):
    raise CaseWallTimeout()


WALL_FACTOR = 10


def jsonable(x):
    if isinstance(x, dict):
        return {str(k): jsonable(v) for k, v in x.items()}
    if isinstance(x, (list, tuple)):
        return [jsonable(v) for v in x]
    if isinstance(x, np.ndarray):
        return jsonable(x.tolist())
    if isinstance(x, (np.floating, float)):
        x = float(x)
        if x != x or x in (float("inf"), float("-inf")):
            return repr(x)
        return x
    if isinstance(x, (np.integer,)):
        return int(x)
    if isinstance(x, (np.bool_,)):
        return bool(x)
    if isinstance(x, (str, int, bool)) or x is None:
        return x
    return repr(x)


def case_rng(seed, propnum, idx):
    return np.random.default_rng([int(seed), int(propnum), int(idx)])


def run_one(mod, seed, idx, tier, timeout_s, cpu_budget=True):
    """Run one case; every exception that escapes the check module is itself
    an observation (the check modules catch and classify exceptions of the
    monitored calls; whatever still escapes is either an exception from library
    code in a place where none is expected, or a harness bug -> reported)."""
    rng = case_rng(seed, mod.PROPNUM, idx)
    # the deciding budget is CPU time of this process (ITIMER_PROF: user+system), which does not depend on how loaded the
    # machine is; the wall-clock alarm is WALL_FACTOR times longer and only ever yields 'inconclusive'
    old = signal.signal(signal.SIGALRM, _wall_alarm)
    oldp = signal.signal(signal.SIGPROF, _cpu_alarm)
    signal.alarm(int(WALL_FACTOR * timeout_s))
    if cpu_budget:
        signal.setitimer(signal.ITIMER_PROF, float(timeout_s))
    try:
        rec = mod.run_case(rng, idx, tier)
    except CaseWallTimeout:
        rec = {"cls": "timeout", "viol": [], "inconcl": ["case wall-clock watchdog (%ds)" % int(WALL_FACTOR * timeout_s)]}
    except CaseTimeout:
        rec = {"cls": "timeout", "viol": [], "inconcl": ["case CPU-time watchdog (%ds)" % timeout_s]}
        if getattr(mod, "TIMEOUT_IS_VIOLATION", False):
            rec["viol"] = [{"key": {"kind": "hang"}, "err": None,
                            "msg": "case used more than %d s of CPU time without finishing (typical: milliseconds)" % timeout_s}]
            rec["inconcl"] = []
    except Exception as e:  # noqa: BLE001
        tb = traceback.format_exc(limit=12)
        in_lib = "/distance3d/" in tb.split("verif/checks")[-1] if "verif/checks" in tb else "/distance3d/" in tb
        rec = {"cls": "uncaught", "viol": [{
            "key": {"kind": "uncaught-exception", "exc": type(e).__name__, "in_library": bool(in_lib)},
            "err": None, "msg": "uncaught %s: %s" % (type(e).__name__, str(e)[:300]), "trace": tb[-1500:]}]}
    finally:
        signal.setitimer(signal.ITIMER_PROF, 0.0)
        signal.alarm(0)
        signal.signal(signal.SIGALRM, old)
        signal.signal(signal.SIGPROF, oldp)
    return rec


def main(argv):
    prop, tier, seed, shard, nshards, out = argv[:6]
    seed = int(seed); shard = int(shard); nshards = int(nshards)
    explicit = [int(a) for a in argv[6:]]
    mod = importlib.import_module("verif.checks." + prop.lower())
    t0 = time.time()
    setup_err = None
    try:
        if hasattr(mod, "setup"):
            mod.setup(tier)
    except Exception as e:  # noqa: BLE001
        setup_err = {"key": {"kind": "setup-exception", "exc": type(e).__name__}, "err": None,
                     "msg": "setup/import failed: %s: %s" % (type(e).__name__, str(e)[:300]),
                     "trace": traceback.format_exc(limit=10)[-1500:]}
    n = mod.cases(tier)
    idxs = explicit if explicit else range(shard, n, nshards)
    timeout_s = getattr(mod, "CASE_TIMEOUT_S", 120)
    progress = open(out + ".progress", "w")
    agg = {"shard": shard, "mode": os.environ.get("VERIF_MODE", "jit"), "cases": 0, "nontrivial": 0,
           "cls": {}, "events": {}, "worst": {}, "viol": [], "viol_count": 0, "viol_keys": {},
           "inconcl": {}, "samples": [], "sigs": [], "ntsigs": []}
    if setup_err is not None:
        agg["viol"].append(dict(setup_err, idx=-1)); agg["viol_count"] += 1
        idxs = []
    idxs = list(idxs)
    if idxs and not explicit:
        # warm-up: the first case is executed once without a CPU budget and its record discarded, so that the lazily
        # compiled numba kernels (tens of CPU seconds on a cold cache) are not charged to a timed case; progress index -1
        # tells the parent that no case is being timed
        progress.seek(0); progress.write("-1 %.3f      \n" % time.time()); progress.flush()
        try:
            run_one(mod, seed, idxs[0], tier, max(timeout_s, 180), cpu_budget=False)
        except BaseException:  # noqa: BLE001
            pass
    for idx in idxs:
        progress.seek(0); progress.write("%d %.3f      \n" % (idx, time.time())); progress.flush()
        tc = time.time()
        rec = run_one(mod, seed, idx, tier, timeout_s)
        tc = time.time() - tc
        agg["cases"] += 1
        cur = agg["worst"].get("case_wall_s")
        if cur is None or tc > cur[0]:
            agg["worst"]["case_wall_s"] = [tc, idx]
        c = rec.get("cls", "?")
        agg["cls"][c] = agg["cls"].get(c, 0) + 1
        sig = rec.get("sig")
        if sig is None:
            sig = "%s:%d" % (c, idx)
        h = int(hashlib.blake2b(str(sig).encode(), digest_size=7).hexdigest(), 16)
        agg["sigs"].append(h)
        if rec.get("nontrivial", True) and c not in ("timeout", "uncaught"):
            agg["nontrivial"] += 1
            agg["ntsigs"].append(h)
        for k, v in rec.get("events", {}).items():
            agg["events"][k] = agg["events"].get(k, 0) + int(v)
        for k, v in rec.get("worst", {}).items():
            if v is None:
                continue
            v = float(v)
            cur = agg["worst"].get(k)
            if cur is None or v > cur[0] or v != v:
                agg["worst"][k] = [v, idx]
        for r in rec.get("inconcl", []):
            agg["inconcl"][r] = agg["inconcl"].get(r, 0) + 1
        for v in rec.get("viol", []):
            agg["viol_count"] += 1
            ks = json.dumps(jsonable(v.get("key", {})), sort_keys=True)
            st = agg["viol_keys"].setdefault(ks, {"n": 0, "max_err": None})
            st["n"] += 1
            e = v.get("err")
            if e is not None and (st["max_err"] is None or e > st["max_err"]):
                st["max_err"] = float(e)
            if len(agg["viol"]) < MAX_VIOL_PER_SHARD or st["n"] <= 3:
                vv = dict(v); vv["idx"] = idx; vv["cls"] = c
                if "sample" in rec:
                    vv["case"] = rec["sample"]
                agg["viol"].append(vv)
        if len(agg["samples"]) < MAX_SAMPLES and "sample" in rec:
            agg["samples"].append({"idx": idx, "cls": c, "case": rec["sample"]})
    if hasattr(mod, "teardown"):
        try:
            extra = mod.teardown()
            if extra:
                for k, v in extra.get("events", {}).items():
                    agg["events"][k] = agg["events"].get(k, 0) + int(v)
        except Exception:  # noqa: BLE001
            pass
    agg["wall_s"] = time.time() - t0
    tmp = out + ".tmp"
    with open(tmp, "w") as fh:
        json.dump(jsonable(agg), fh)
    os.replace(tmp, out)
    progress.close()


if __name__ == "__main__":
    main(sys.argv[1:])
