"""Known-findings matcher. Reads known_findings.json; never writes it.

An entry suppresses a violation only if
  * entry['status'] == 'known' and entry['property'] == property id,
  * every item of entry['key'] equals the violation's mechanism key (a list
    value in the entry means 'one of'),
  * the violation's error magnitude does not exceed entry['max_err'] (if set).
Entries with status 'fixed' suppress nothing: they are documentation.
Keys are mechanism predicates computed from observables; they never contain
seeds, case numbers or random values.
"""
import json
import os

from . import env

PATH = os.path.join(env.ROOT, "known_findings.json")


def load():
    if not os.path.exists(PATH):
        return []
    with open(PATH) as fh:
        data = json.load(fh)
    return data.get("findings", [])


def match(entries, prop, viol):
    key = viol.get("key", {})
    err = viol.get("err")
    for e in entries:
        if e.get("status") != "known" or e.get("property") != prop:
            continue
        ok = True
        for k, v in e.get("key", {}).items():
            have = key.get(k)
            if isinstance(v, list):
                if have not in v:
                    ok = False
                    break
            elif have != v:
                ok = False
                break
        if not ok:
            continue
        if "max_err" in e and err is not None and not (err <= e["max_err"]):
            continue
        return e
    return None
