"""Pair scenes for the narrow-phase properties (C01, C02, C07-C09, C12, C19).

make_pair() returns the two specs, the placement class label and whatever is
known *by construction* about the pair:
    truth['dist']    exact distance (gap/touch classes), else None
    truth['common']  a common point with certified depth truth['depth'] >= 0 in
                     both shapes (deep / nested / same / copy classes), else None
"""
import numpy as np

from . import gen, oracles as O

CLASSES = ["gap", "touch", "overlap", "deep", "same", "copy", "nested", "lattice", "parallel", "free", "far", "coplanar",
           "feature", "axial"]
DEFAULT_P = {"gap": .2, "touch": .12, "overlap": .1, "deep": .1, "same": .03, "copy": .04, "nested": .06, "lattice": .08,
             "parallel": .06, "free": .07, "far": .05, "coplanar": .04, "feature": .05, "axial": .04}
AXIAL_KINDS = ("sphere", "ellipsoid", "capsule", "cylinder", "box")


def quarter_turn(rng):
    """rotation by a multiple of 90 degrees built from cos/sin (entries like 6.1e-17 instead of exact zeros,
    as user code produces them), possibly composed of two such turns"""
    R = np.eye(3)
    for _ in range(int(rng.integers(1, 3))):
        a = float(rng.integers(0, 4)) * 0.5 * np.pi
        c, s_ = np.cos(a), np.sin(a)
        ax = int(rng.integers(3))
        i, j = [(1, 2), (2, 0), (0, 1)][ax]
        Q = np.eye(3)
        Q[i, i] = c; Q[j, j] = c; Q[i, j] = -s_; Q[j, i] = s_
        R = R @ Q
    return R


def feature_points(o, R):
    """reference / extreme points of a shape: centre, deep point, support points along +-frame axes and
    along the frame diagonals (corners, rim points, apex, face and edge points)"""
    pts = [o.center(), o.deep_point()[0]]
    dirs = []
    for i in range(3):
        dirs += [R[:, i], -R[:, i]]
    for sx in (-1, 1):
        for sy in (-1, 1):
            for sz in (-1, 1):
                dirs.append(sx * R[:, 0] + sy * R[:, 1] + sz * R[:, 2])
    for d in dirs:
        pts.append(o.sup(d))
    # midpoints between two axis support points (edge / face centres)
    pts.append(0.5 * (o.sup(R[:, 0] + R[:, 1]) + o.sup(R[:, 0] - R[:, 1])))
    pts.append(0.5 * (o.sup(R[:, 2]) + o.sup(-R[:, 2])))
    return pts


def _pick_class(rng, p):
    ks = list(p.keys())
    w = np.array([p[k] for k in ks], float)
    return str(rng.choice(ks, p=w / w.sum()))


def lattice_spec(rng, kind):
    """axis-aligned shape with small integer (or half-integer) sizes and integer position"""
    R = gen.rand_rot(rng, "perm")
    c = rng.integers(-3, 4, size=3).astype(float)
    T = O.pose(R, c)

    def s():
        return float(rng.choice([1.0, 2.0, 3.0, 0.5, 4.0]))
    if kind == "sphere":
        return {"kind": kind, "c": c, "r": s()}
    if kind == "ellipsoid":
        return {"kind": kind, "T": T, "radii": np.array([s(), s(), s()])}
    if kind == "capsule":
        return {"kind": kind, "T": T, "r": s(), "h": s()}
    if kind == "cylinder":
        return {"kind": kind, "T": T, "r": s(), "l": s()}
    if kind == "cone":
        return {"kind": kind, "T": T, "r": s(), "h": s()}
    if kind == "box":
        return {"kind": kind, "T": T, "size": np.array([s(), s(), s()])}
    if kind == "disk":
        return {"kind": kind, "c": c, "r": s(), "n": np.ascontiguousarray(R[:, 2])}
    if kind == "ellipse":
        return {"kind": kind, "c": c, "axes": np.ascontiguousarray(R[:, :2].T), "radii": np.array([s(), s()])}
    V, which = gen.structured_vertices(rng, rng.choice(["cube", "octa", "grid", "prism"]))
    V = V * 0.5 * np.array([s(), s(), s()])
    if kind == "hull":
        return {"kind": kind, "V": np.ascontiguousarray(V @ R.T + c), "sub": "lattice:" + which}
    return {"kind": "mesh", "T": T, "V": np.ascontiguousarray(V), "sub": "lattice:" + which}


def degenerate_hull(rng, scale):
    """zero-volume vertex hulls for C19: single vertex, segment, planar polygon"""
    which = str(rng.choice(["vertex", "segment", "planar"]))
    c = gen.center(rng, far_ok=False)
    R = gen.rand_rot(rng)
    if which == "vertex":
        V = np.zeros((1, 3))
    elif which == "segment":
        V = np.array([[-0.5, 0, 0], [0.5, 0, 0.0]]) * scale
    else:
        k = int(rng.integers(3, 8))
        ang = np.sort(rng.uniform(0, 2 * np.pi, k))
        V = np.c_[np.cos(ang), np.sin(ang), np.zeros(k)] * 0.5 * scale
    return {"kind": "hull", "V": np.ascontiguousarray(V @ R.T + c), "sub": "degenerate:" + which}


def make_pair(rng, kA=None, kB=None, margin_p=0.15, class_p=None, smin=1e-2, smax=1e2, needle_p=0.0, degenerate_p=0.0):
    class_p = class_p or DEFAULT_P
    cls = _pick_class(rng, class_p)
    kA = kA or str(rng.choice(gen.KINDS)); kB = kB or str(rng.choice(gen.KINDS))
    common_scale = None if rng.random() < 0.5 else gen.logu(rng, max(smin, 1e-2), min(smax, 1e2))
    truth = {"dist": None, "common": None, "depth": None}
    tags = []

    def spec(kind, **kw):
        if degenerate_p and kind == "hull" and rng.random() < degenerate_p:
            tags.append("degenerate")
            return degenerate_hull(rng, common_scale or gen.size(rng, smin, smax))
        sp = gen.rand_spec(rng, kind, scale=common_scale, smin=smin, smax=smax, margin_p=margin_p, **kw)
        if needle_p and rng.random() < needle_p:
            sp = _needle(rng, sp)
            tags.append("needle")
        return sp

    if cls == "axial" and not (kA in AXIAL_KINDS and kB in AXIAL_KINDS):
        cls = "lattice"
    if cls == "axial":
        # 'in front of each other': lattice shapes (signed-permutation poses, dyadic sizes), B on a principal axis of A at
        # an exact gap g. Both shapes are symmetric about that line, so the distance is exactly g (the plane normal to
        # the line separates by g, the points on the line attain it)
        sA = lattice_spec(rng, kA); sB = lattice_spec(rng, kB)
        oA0 = O.oracle(sA); oB0 = O.oracle(sB)
        u = np.zeros(3); u[int(rng.integers(3))] = float(rng.choice([-1.0, 1.0]))
        g = float(rng.choice([0.125, 0.25, 0.5, 1.0, 1.5, 3.0, 8.0]))
        hA = oA0.h(u) - float(oA0.center() @ u); hB = oB0.h(-u) + float(oB0.center() @ u)
        sB = O.translated(sB, oA0.center() + (hA + g + hB) * u - oB0.center())
        truth["dist"] = g; truth["u"] = u
        truth["pa"] = oA0.center() + hA * u; truth["pb"] = truth["pa"] + g * u
    elif cls == "lattice":
        sA = lattice_spec(rng, kA); sB = lattice_spec(rng, kB)
    elif cls == "far":
        sA = spec(kA, far_ok=False); sB = spec(kB, far_ok=False)
        sB = O.translated(sB, gen.rand_dir(rng) * rng.uniform(100, 650))
    elif cls == "parallel":
        R = gen.rand_rot(rng)
        sA = spec(kA, rot=R, far_ok=False); sB = spec(kB, rot=R if rng.random() < 0.7 else R @ gen.rand_rot(rng, "axis"), far_ok=False)
    elif cls == "feature":
        # feature-on-feature placement: a corner/rim/apex/face point of B coincides exactly with one of A,
        # the frames differ by quarter turns built from cos/sin
        RA = gen.rand_rot(rng, str(rng.choice(["ident", "perm", "axis", "haar"], p=[.3, .2, .2, .3])))
        if rng.random() < 0.5:
            RA = quarter_turn(rng) if rng.random() < 0.5 else RA
        RB = RA @ quarter_turn(rng)
        cA = rng.integers(-2, 3, size=3).astype(float) if rng.random() < 0.6 else None
        if rng.random() < 0.5:
            sA = lattice_spec(rng, kA); sB = lattice_spec(rng, kB)
            sA = _with_rot(sA, RA); sB = _with_rot(sB, RB)
        else:
            sA = spec(kA, rot=RA, c=cA, far_ok=False); sB = spec(kB, rot=RB, far_ok=False)
        oA0 = O.oracle(sA); oB0 = O.oracle(sB)
        fa = feature_points(oA0, RA); fb = feature_points(oB0, RB)
        pa_ = fa[int(rng.integers(len(fa)))]; pb_ = fb[int(rng.integers(len(fb)))]
        sB = O.translated(sB, pa_ - pb_)
    elif cls == "coplanar":
        # both shapes share a plane through their centres (normal = third column of a common rotation)
        R = gen.rand_rot(rng)
        sA = spec(kA, rot=R, far_ok=False)
        oA = O.oracle(sA)
        off = R[:, 0] * rng.normal() * oA.scale() + R[:, 1] * rng.normal() * oA.scale()
        sB = spec(kB, rot=R @ gen.rand_rot(rng, rng.choice(["ident", "axis"])), c=oA.center() + off)
    else:
        sA = spec(kA); sB = spec(kB, far_ok=False)
    oA = O.oracle(sA); oB = O.oracle(sB)
    Lref = max(1.0, oA.scale(), oB.scale(), float(np.linalg.norm(oA.center())))
    if cls == "gap":
        g = gen.logu(rng, 1e-7, 10.0) * Lref
        sB, u, pa, pb = gen.place_gap(rng, sA, sB, g)
        truth["dist"] = g; truth["u"] = u; truth["pa"] = pa; truth["pb"] = pb
    elif cls == "touch":
        sB, u, pa, pb = gen.place_gap(rng, sA, sB, 0.0)
        truth["dist"] = 0.0; truth["u"] = u; truth["pa"] = pa; truth["pb"] = pb
    elif cls == "overlap":
        g = -gen.logu(rng, 1e-6, 0.5) * min(oA.scale(), oB.scale())
        sB, u, pa, pb = gen.place_gap(rng, sA, sB, g)
        oB2 = O.oracle(sB)
        m = 0.5 * (pa + pb)
        dep = min(oA.depth(m), oB2.depth(m))
        if dep > 0:
            truth["common"] = m; truth["depth"] = dep
        truth["u"] = u; truth["extent"] = -g
    elif cls == "deep":
        placed = gen.place_deep(rng, sA, sB)
        if placed is not None:
            sB, p, dep = placed
            truth["common"] = p; truth["depth"] = dep
        else:
            cls = "deep-flat"
            pA, _ = oA.deep_point(); pB, _ = oB.deep_point()
            sB = O.translated(sB, pA - pB)
            truth["common"] = pA; truth["depth"] = 0.0
    elif cls == "same":
        sB = sA
        p, r = oA.deep_point()
        truth["common"] = p; truth["depth"] = max(0.0, r)
    elif cls == "copy":
        sB = _copy_spec(sA)
        p, r = oA.deep_point()
        truth["common"] = p; truth["depth"] = max(0.0, r)
    elif cls == "nested":
        pA, rA = oA.deep_point()
        if rA > 0:
            f = rng.uniform(0.01, 0.5) * rA / max(oB.scale(), 1e-12)
            sB = _shrink_about_center(sB, f)
            oB = O.oracle(sB)
            pB, rB = oB.deep_point()
            sB = O.translated(sB, pA - pB)
            truth["common"] = pA; truth["depth"] = min(rA, max(rB, 0.0))
        else:
            cls = "nested-flat"
            pB, _ = oB.deep_point()
            sB = O.translated(sB, pA - pB)
            truth["common"] = pA; truth["depth"] = 0.0
    label = cls + ("+" + "+".join(sorted(set(tags))) if tags else "")
    return sA, sB, label, truth


def _with_rot(spec, R):
    """replace the rotation of a posed spec (keeps position and sizes)"""
    k = spec["kind"]
    s = dict(spec)
    if k == "margin":
        s["base"] = _with_rot(spec["base"], R); return s
    if "T" in spec:
        T = np.array(spec["T"], float); T[:3, :3] = R; s["T"] = T
    elif k == "disk":
        s["n"] = np.ascontiguousarray(R[:, 2])
    elif k == "ellipse":
        s["axes"] = np.ascontiguousarray(R[:, :2].T)
    elif k == "hull":
        V = np.asarray(spec["V"], float); c = V.mean(axis=0)
        s["V"] = np.ascontiguousarray((V - c) @ R.T + c)
    return s


def _copy_spec(s):
    out = {}
    for k, v in s.items():
        if k == "base":
            out[k] = _copy_spec(v)
        elif isinstance(v, np.ndarray):
            out[k] = v.copy()
        else:
            out[k] = v
    return out


def _shrink_about_center(spec, f):
    """scale a spec about its own reference point by f (keeps it in the domain [1e-2, ...] if possible)"""
    o = O.oracle(spec)
    c = o.center()
    s0 = O.translated(spec, -c)
    smallest = _smallest_feature(spec)
    f = max(f, 1e-2 / smallest) if smallest > 0 else f
    s1 = O.scaled(s0, f)
    return O.translated(s1, c)


def _smallest_feature(spec):
    k = spec["kind"]
    if k == "margin":
        return min(_smallest_feature(spec["base"]), spec["m"])
    vals = []
    for key in ("r", "h", "l"):
        if key in spec:
            vals.append(float(spec[key]))
    for key in ("radii", "size"):
        if key in spec:
            vals += [float(x) for x in spec[key]]
    if "V" in spec:
        vals.append(float(np.ptp(np.asarray(spec["V"]), axis=0).max()))
    return min(vals) if vals else 1.0


def _needle(rng, spec):
    """aspect ratio up to 1e4 (needle or flat) inside the size domain"""
    k = spec["kind"]
    if k == "margin":
        return dict(spec, base=_needle(rng, spec["base"]))
    ratio = gen.logu(rng, 1e2, 1e4)
    big = gen.logu(rng, 1.0, 1e2)
    small = max(1e-2, big / ratio)
    s = dict(spec)
    flip = rng.random() < 0.5
    if k == "box":
        s["size"] = np.array([big, small, small] if flip else [big, big, small])[rng.permutation(3)]
    elif k == "ellipsoid":
        s["radii"] = np.array([big, small, small] if flip else [big, big, small])[rng.permutation(3)]
    elif k == "capsule":
        s["r"], s["h"] = (small, big) if flip else (big, small)
    elif k == "cylinder":
        s["r"], s["l"] = (small, big) if flip else (big, small)
    elif k == "cone":
        s["r"], s["h"] = (small, big) if flip else (big, small)
    elif k == "ellipse":
        s["radii"] = np.array([big, small])[rng.permutation(2)]
    elif k in ("hull", "mesh"):
        V = np.asarray(spec["V"], float)
        c = V.mean(axis=0)
        ext = np.ptp(V, axis=0); ext[ext == 0] = 1.0
        tgt = np.array([big, small, small] if flip else [big, big, small])[rng.permutation(3)]
        s["V"] = np.ascontiguousarray((V - c) / ext * tgt + c)
    return s


def scene(sA, sB, k=None):
    """oracles + L of a pair (k: tolerance factor of the caller, see oracles.scene_L)"""
    oA = O.oracle(sA); oB = oA if sB is sA else O.oracle(sB)
    return oA, oB, O.scene_L([oA, oB], k=k)


def build_pair(sA, sB, rng=None, p_update=0.0):
    """library colliders of a pair; with rng and p_update > 0 a collider is (with that probability) built at
    another pose and brought to its place by update_pose()"""
    def b(s):
        if rng is not None and p_update > 0 and rng.random() < p_update:
            return gen.build_via_update(s, rng)
        return gen.build(s)
    A = b(sA)
    B = A if sB is sA else b(sB)
    return A, B


def describe(sA, sB, cls, truth):
    return {"class": cls, "A": O.describe(sA), "B": "same object as A" if sB is sA else O.describe(sB),
            "truth": {k: (v.tolist() if isinstance(v, np.ndarray) else v) for k, v in truth.items()
                      if k in ("dist", "depth", "extent")}}
